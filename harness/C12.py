"""C12 — no engine is built from an SDL that breaks a checked schema rule.  (DESIGN §4 C12)"""
import asyncio
from typing import Optional
from vf import env
from vf.env import pick, pickb, verdict, observe, identity
from vf.ob import obligation, shard, finding_open
from crosshair.tracers import NoTracing
from tartiflette import create_engine, Directive, Scalar, Resolver

META = {
    "bounds": "catalogue of 121 rule-breaking SDL texts (every rule of the statement at several sites: field / argument / input field / wrapped / via extend / in a second file) "
              "+ generators over wrapper bits for interface conformance (field type 8x8 wrappings x 4 base-type pairs, argument type 8x8, extra argument nullability/default)",
    "outside": "SDL outside the catalogue/generators; engine builds run concretely (create_engine under tracing costs ~40 s because of the lark parse: the selectors are "
               "resolved by branching, then the build runs untraced on concrete text — the solver contributes the exhaustive enumeration of the selector space only)",
    "explanation": "Every generated SDL is invalid by construction for one rule of the statement; expected: create_engine raises (no engine object is returned).",
}
COUNTER = [0]


class _Hooks:
    async def on_field_execution(self, directive_args, next_resolver, parent, args, ctx, info):
        return await next_resolver(parent, args, ctx, info)


class _BadHooks:
    def on_field_execution(self, directive_args, next_resolver, parent, args, ctx, info):     # not awaitable
        return None


import functools as _ft  # noqa: E402


class _WrappedSyncHooks:
    """not awaitable either: a plain function that merely carries a functools.wraps link to an async one (what a careless decorator produces)"""
    async def _real(self, directive_args, next_resolver, parent, args, ctx, info):
        return await next_resolver(parent, args, ctx, info)

    @_ft.wraps(_real)
    def on_field_execution(self, directive_args, next_resolver, parent, args, ctx, info):
        return "not awaited"


class _PartialSyncHooks:
    """a functools.partial around a plain function"""
    def _plain(self, tag, directive_args, next_resolver, parent, args, ctx, info):
        return None

    def __init__(self):
        self.on_field_execution = _ft.partial(self._plain, "t")


class _MyScalar:
    def coerce_output(self, v):
        return v

    def coerce_input(self, v):
        return v

    def parse_literal(self, ast):
        return None


def try_build(sdl, impl_scalar=True, bad_hook=False, dir_impl=True):
    if bad_hook in ("wrapped", "partial"):
        return _try_build(sdl, impl_scalar, {"wrapped": _WrappedSyncHooks, "partial": _PartialSyncHooks}[bad_hook](), dir_impl)
    return _try_build(sdl, impl_scalar, _BadHooks() if bad_hook else _Hooks(), dir_impl)


def _try_build(sdl, impl_scalar, hooks, dir_impl):
    """-> None when create_engine raised (expected), else the engine"""
    COUNTER[0] += 1
    name = "c12_%d" % COUNTER[0]
    text = sdl if isinstance(sdl, str) else " ".join(open(p).read() for p in sdl)
    # implementations are registered only for what the SDL declares (an implementation without declaration is itself refused)
    dir_impl = dir_impl and "directive @d" in text
    impl_scalar = impl_scalar and "scalar My" in text
    if dir_impl:
        try:
            Directive("d", schema_name=name)(hooks)
        except Exception as e:     # the decorator itself may refuse a non-awaitable hook: that is "no engine" too
            observe("directive refused at registration", repr(e))
            return None
    if impl_scalar:
        Scalar("My", schema_name=name)(_MyScalar)
    try:
        eng = asyncio.run(create_engine(sdl, schema_name=name, json_loader=identity))
    except Exception as e:
        observe("refused", type(e).__name__, str(e)[:300])
        return None
    observe("BUILT", sdl if isinstance(sdl, str) else sdl)
    return eng


OK_BASE = "type Query { a: Int }\n"
CATALOGUE = [
    # undefined types
    ("undefined field type", "type Query { a: Nope }"), ("undefined field type (list)", "type Query { a: [Nope] }"), ("undefined field type (non-null)", "type Query { a: Nope! }"),
    ("undefined field type (nested)", "type Query { a: [[Nope!]]! }"), ("undefined field type in interface", OK_BASE + "interface I { x: Nope }"),
    ("undefined field type in second object", OK_BASE + "type T { x: Int y: Nope }"), ("undefined argument type", "type Query { a(x: Nope): Int }"),
    ("undefined argument type (list)", "type Query { a(x: [Nope!]): Int }"), ("undefined input field type", OK_BASE + "input In { x: Nope }"),
    ("undefined input field type (wrapped)", OK_BASE + "input In { x: [Nope]! }"), ("undefined type via extend", OK_BASE + "extend type Query { b: Nope }"),
    ("undefined directive argument type", OK_BASE + "directive @d(x: Nope) on FIELD"),
    # non-input types at input positions
    ("object as argument type", "type Query { a(x: T): Int } type T { x: Int }"), ("interface as argument type", "type Query { a(x: I): Int } interface I { x: Int }"),
    ("union as argument type", "type Query { a(x: U): Int } type T { x: Int } union U = T"), ("object as argument type (wrapped)", "type Query { a(x: [T!]!): Int } type T { x: Int }"),
    ("object as input field type", OK_BASE + "type T { x: Int } input In { x: T }"), ("interface as input field type", OK_BASE + "interface I { x: Int } input In { x: [I] }"),
    ("union as input field type", OK_BASE + "type T { x: Int } union U = T input In { u: U! }"), ("object as directive argument type", OK_BASE + "type T { x: Int } directive @d(x: T) on FIELD"),
    # interfaces
    ("implements: missing field", OK_BASE + "interface I { x: Int y: Int } type T implements I { x: Int }"),
    ("implements: missing field (second interface)", OK_BASE + "interface I { x: Int } interface J { y: Int } type T implements I & J { x: Int }"),
    ("implements: incompatible field type", OK_BASE + "interface I { x: Int } type T implements I { x: String }"),
    ("implements: nullable where non-null required", OK_BASE + "interface I { x: Int! } type T implements I { x: Int }"),
    ("implements: list vs named", OK_BASE + "interface I { x: [Int] } type T implements I { x: Int }"),
    ("implements: object not a possible type", OK_BASE + "interface N { id: ID } type A implements N { id: ID } type B { id: ID } interface I { n: N } type T implements I { n: B }"),
    ("implements: missing argument", OK_BASE + "interface I { x(a: Int): Int } type T implements I { x: Int }"),
    ("implements: mistyped argument", OK_BASE + "interface I { x(a: Int): Int } type T implements I { x(a: String): Int }"),
    ("implements: argument non-null differs", OK_BASE + "interface I { x(a: Int): Int } type T implements I { x(a: Int!): Int }"),
    ("implements: argument nullable where non-null", OK_BASE + "interface I { x(a: Int!): Int } type T implements I { x(a: Int): Int }"),
    ("implements: argument list differs", OK_BASE + "interface I { x(a: [Int]): Int } type T implements I { x(a: [Int]!): Int }"),
    ("implements: extra required argument", OK_BASE + "interface I { x(a: Int): Int } type T implements I { x(a: Int, b: Int!): Int }"),
    ("implements: via extend, missing field", OK_BASE + "interface I { x: Int } type T { y: Int } extend type T implements I"),
    ("implements non-interface (object)", OK_BASE + "type O { x: Int } type T implements O { x: Int }"),
    ("implements non-interface (union)", OK_BASE + "type O { x: Int } union U = O type T implements U { x: Int }"),
    ("implements non-interface (scalar)", OK_BASE + "type T implements Int { x: Int }"), ("implements undefined", OK_BASE + "type T implements Nope { x: Int }"),
    ("implements non-interface (enum)", OK_BASE + "enum E { A } type T implements E { x: Int }"), ("implements non-interface (input)", OK_BASE + "input In { x: Int } type T implements In { x: Int }"),
    # roots
    ("no query root", "type T { x: Int }"), ("no query root (only mutation)", "type Mutation { x: Int }"), ("undefined query root", "schema { query: Nope } type T { x: Int }"),
    ("undefined mutation root", "schema { query: Query mutation: Nope } type Query { a: Int }"), ("undefined subscription root", "schema { query: Query subscription: Nope } type Query { a: Int }"),
    ("undefined root named Mutation", "schema { query: Query mutation: Mutation } type Query { a: Int }"), ("undefined root named Subscription", "schema { query: Q subscription: Subscription } type Q { a: Int }"),
    ("undefined mutation root named by extend schema", OK_BASE + "extend schema { mutation: Nope }"), ("undefined subscription root named by extend schema", OK_BASE + "extend schema { subscription: Nope }"),
    ("undefined root named by extend schema, explicit schema block", "schema { query: Q } type Q { a: Int } extend schema { mutation: Nope }"),
    ("undefined root in an extension followed by a violating extension", OK_BASE + "extend schema { mutation: Nope } extend type Query { b: Undefined }"),
    ("violating extension after a directive-only extend schema", OK_BASE + "directive @d on SCHEMA extend schema @d extend type Query { b: [Undefined!]! }"),
    ("violating extension after a valid extend schema", OK_BASE + "type M { x: Int } extend schema { mutation: M } extend type M { y: Undefined }"),
    # argument faults on a field of an interface that no object implements (nothing on the object side can report them)
    ("undefined argument type on an unimplemented interface", OK_BASE + "interface Lone { f(by: Missing): Int }"), ("non-input argument type (object) on an unimplemented interface", OK_BASE + "type T { x: Int } interface Lone { f(by: T): Int }"),
    ("non-input argument type (list of interface) on an unimplemented interface", OK_BASE + "interface Lone { f(again: [Lone]): Int }"), ("undefined argument type in an extension of an unimplemented interface", OK_BASE + "interface Lone { x: Int } extend interface Lone { g(by: [Missing!]): Int }"),
    ("undefined field type on an unimplemented interface", OK_BASE + "interface Lone { f: Missing }"),
    # empty / self / duplicates
    ("query root without fields", "type Query"), ("query root without fields (custom root name)", "schema { query: Root } type Root"), ("field-less Query among well-formed types", "type Query type T { x: Int } enum E { A }"),
    ("field-less mutation root", OK_BASE + "type Mutation"), ("field-less object used as a field type", "type Query { e: Empty } type Empty"),
    ("object without fields", OK_BASE + "type Empty"), ("interface-implementing object without fields", OK_BASE + "interface I { x: Int } type Empty implements I"),
    ("union containing itself", OK_BASE + "type A { x: Int } union U = A | U"), ("union containing only itself", OK_BASE + "union U = U"),
    ("duplicate enum values", OK_BASE + "enum E { A B A }"), ("duplicate enum values (adjacent)", OK_BASE + "enum E { A A }"), ("duplicate enum value via extend", OK_BASE + "enum E { A B } extend enum E { B }"),
    ("duplicate enum value across two extensions", OK_BASE + "enum E { A } extend enum E { B } extend enum E { B }"), ("duplicate enum value inside one extension", OK_BASE + "enum E { A } extend enum E { B B }"),
    ("duplicate field across two extensions", OK_BASE + "type T { x: Int } extend type T { y: Int } extend type T { y: Int }"), ("duplicate union member across two extensions", OK_BASE + "type A { x: Int } type B { x: Int } union U = A extend union U = B extend union U = B"),
    ("duplicate input field across two extensions", OK_BASE + "input In { x: Int } extend input In { y: Int } extend input In { y: Int }"), ("interface implemented by two extensions", OK_BASE + "interface I { x: Int } type T { x: Int } extend type T implements I extend type T implements I"),
    ("duplicate type (object/object)", "type Query { a: Int } type T { x: Int } type T { y: Int }"), ("duplicate type (object/enum)", OK_BASE + "type T { x: Int } enum T { A }"),
    ("duplicate type (scalar/object)", OK_BASE + "scalar My type My { x: Int }"), ("duplicate type (input/interface)", OK_BASE + "input X { x: Int } interface X { x: Int }"),
    ("duplicate type: Query twice", "type Query { a: Int } type Query { b: Int }"), ("duplicate of a built-in scalar", OK_BASE + "scalar Int"),
    ("duplicate directive", OK_BASE + "directive @d on FIELD directive @d on FIELD"), ("duplicate directive (different args)", OK_BASE + "directive @d(x: Int) on FIELD directive @d on QUERY"),
    ("duplicate of a built-in directive", OK_BASE + "directive @skip(if: Boolean!) on FIELD"),
    # extend
    ("extend unknown type", OK_BASE + "extend type Nope { x: Int }"), ("extend unknown enum", OK_BASE + "extend enum Nope { A }"), ("extend unknown union", OK_BASE + "type A { x: Int } extend union Nope = A"),
    ("extend unknown input", OK_BASE + "extend input Nope { x: Int }"), ("extend unknown interface", OK_BASE + "extend interface Nope { x: Int }"), ("extend unknown scalar", OK_BASE + "extend scalar Nope @deprecated"),
    ("extend type on interface", OK_BASE + "interface I { x: Int } extend type I { y: Int }"), ("extend interface on object", OK_BASE + "type T { x: Int } extend interface T { y: Int }"),
    ("extend enum on object", OK_BASE + "type T { x: Int } extend enum T { A }"), ("extend input on object", OK_BASE + "type T { x: Int } extend input T { y: Int }"),
    ("extend union on object", OK_BASE + "type T { x: Int } type A { x: Int } extend union T = A"), ("extend type on enum", OK_BASE + "enum E { A } extend type E { x: Int }"),
    ("extend: duplicate field", OK_BASE + "extend type Query { a: String }"), ("extend: duplicate field in interface", OK_BASE + "interface I { x: Int } extend interface I { x: Int }"),
    ("extend: duplicate input field", OK_BASE + "input In { x: Int } extend input In { x: Int }"), ("extend: duplicate union member", OK_BASE + "type A { x: Int } union U = A extend union U = A"),
    ("extend: interface already implemented", OK_BASE + "interface I { x: Int } type T implements I { x: Int } extend type T implements I"),
    ("extend: field of undefined type", OK_BASE + "type T { x: Int } extend type T { y: [Nope] }"),
    # syntax
    ("syntax: missing closing brace", "type Query { a: Int"), ("syntax: missing colon", "type Query { a Int }"), ("syntax: empty", ""), ("syntax: garbage", "tpye Query { a: Int }"),
    ("syntax: doubled non-null marker", "type Query { a: Int!! }"), ("syntax: doubled non-null marker on a list", "type Query { a: [Int]!! }"), ("syntax: doubled non-null marker on a list item", "type Query { a: [Int!!] }"),
    ("syntax: tripled non-null marker on an argument", "type Query { a(x: Int!!!): Int }"), ("syntax: doubled non-null marker on an input field", OK_BASE + "input In { x: Int!! }"),
    ("syntax: non-null marker before the type", "type Query { a: !Int }"), ("syntax: empty list type", "type Query { a: [] }"), ("syntax: unbalanced list type", "type Query { a: [[Int] }"),
    ("syntax: doubled non-null marker on a directive argument", OK_BASE + "directive @d(x: Int!!) on FIELD"), ("syntax: doubled non-null marker in an extension", OK_BASE + "extend type Query { b: Int!! }"),
    ("syntax: unterminated string", 'type Query { a: Int } """doc'), ("syntax: bad default", "type Query { a(x: Int = ): Int }"), ("syntax: executable definition", "query { a }"),
]
SPECIAL = [("scalar without implementation", OK_BASE + "scalar My", {"impl_scalar": False}), ("scalar without implementation (used)", "scalar My type Query { a: My }", {"impl_scalar": False}),
           ("directive hook not awaitable", OK_BASE + "directive @d on FIELD_DEFINITION\ntype T { x: Int @d }", {"bad_hook": True}),
           ("directive hook not awaitable (unused directive)", OK_BASE + "directive @d on FIELD", {"bad_hook": True}),
           ("directive hook not awaitable: sync function carrying functools.wraps of an async one", OK_BASE + "directive @d on FIELD_DEFINITION\ntype T { x: Int @d }", {"bad_hook": "wrapped"}),
           ("directive hook not awaitable: functools.partial of a sync function", OK_BASE + "directive @d on FIELD", {"bad_hook": "partial"})]
FILES_CASES = [("undefined type across files", ["type Query { a: T }", "type U { x: Int }"]), ("duplicate type across files", ["type Query { a: Int } type T { x: Int }", "type T { y: Int }"]),
               ("missing interface field across files", ["type Query { a: Int } interface I { x: Int y: Int }", "type T implements I { x: Int }"])]
NCAT = len(CATALOGUE)
F11 = {"undefined root named Mutation", "undefined root named Subscription"}


@obligation(tier="quick", timeout=300, shards=[{"lo": lo} for lo in range(0, NCAT, 16)],
            samples=[{"k": 0}, {"k": 7}],
            selectors=["k: catalogue entry (%d rule-breaking SDL texts), 16 per shard" % NCAT], bounds="the catalogue", findings=["F11"],
            note="each SDL breaks one checked rule at one site: create_engine must raise")
def c12_catalogue(k: int) -> bool:
    """
    post: _
    """
    lo = shard()["lo"]
    k = lo + pick(k, min(16, NCAT - lo))
    label, sdl = CATALOGUE[k]
    if finding_open("F11") and label in F11:
        return True
    with NoTracing():
        observe(label)
        eng = try_build(sdl)
    return verdict(eng is None)


@obligation(tier="quick", timeout=120, samples=[{"k": 0}, {"k": 5}],
            selectors=["k: scalar without implementation / non-awaitable directive hook / violations split over several SDL files"], bounds="7 cases",
            note="missing scalar implementation, non-awaitable hook, and rule violations that only appear once several files are assembled")
def c12_special(k: int) -> bool:
    """
    post: _
    """
    k = pick(k, len(SPECIAL) + len(FILES_CASES))
    with NoTracing():
        if k < len(SPECIAL):
            label, sdl, kw = SPECIAL[k]
            observe(label)
            eng = try_build(sdl, **kw)
        else:
            import os, tempfile, shutil
            label, parts = FILES_CASES[k - len(SPECIAL)]
            d = os.path.join(env.VERIF, ".build", "tmp", "c12_%d_%d" % (os.getpid(), COUNTER[0]))
            os.makedirs(d, exist_ok=True)
            paths = []
            for i, p in enumerate(parts):
                fp = os.path.join(d, "f%d.sdl" % i); open(fp, "w").write(p); paths.append(fp)
            observe(label)
            try:
                eng = try_build(paths)
            finally:
                shutil.rmtree(d, ignore_errors=True)
    return verdict(eng is None)


# ---- interface conformance over wrapper bits ------------------------------------------------------------------------
from vf.ref.validation import wrap, parse, valid_impl_field_type, SUBTYPE  # noqa: E402


BASES = [("Int", "Int"), ("A", "N"), ("A", "U"), ("B", "N"), ("String", "Int"), ("N", "A")]     # (object field base, interface field base)
PRE = "type Query { a: Int }\ninterface N { id: ID }\ntype A implements N { id: ID }\ntype B { id: ID }\nunion U = A\n"


@obligation(tier="quick", timeout=300, shards=[{"base": b} for b in range(len(BASES))],
            samples=[{"fb": 0, "ib": 0}, {"fb": 0, "ib": 1}],
            selectors=["fb: wrappers of the object's field type", "ib: wrappers of the interface's field type", "shard: base type pair (same scalar, object/interface, object/union, non-member, unrelated scalars, reversed)"],
            bounds="8 x 8 wrappings x 6 base pairs",
            note="object field type that is not a valid implementation of the interface field type (spec IsValidImplementationFieldType) => create_engine raises")
def c12_iface_field(fb: int, ib: int) -> bool:
    """
    post: _
    """
    fbase, ibase = BASES[shard()["base"]]
    fb = pick(fb, 8); ib = pick(ib, 8)
    if (fb & 4 and not fb & 2) or (ib & 4 and not ib & 2):
        return True
    ft, it = wrap(fbase, fb), wrap(ibase, ib)
    if valid_impl_field_type(parse(ft), parse(it)):
        return True          # valid: building it is C11's subject
    with NoTracing():
        eng = try_build(PRE + "interface I { x: %s }\ntype T implements I { x: %s }" % (it, ft))
    return verdict(eng is None)


@obligation(tier="quick", timeout=300,
            samples=[{"ab": 0, "ib": 1, "extra": 0}, {"ab": 3, "ib": 3, "extra": 2}],
            selectors=["ab: wrappers of the object's argument type", "ib: wrappers of the interface's argument type", "extra: no extra argument / nullable / non-null with default / required"],
            bounds="8 x 8 wrappings x 4 extra-argument variants",
            note="argument types must be identical (invariant) and an extra argument must not be required")
def c12_iface_args(ab: int, ib: int, extra: int) -> bool:
    """
    post: _
    """
    ab = pick(ab, 8); ib = pick(ib, 8); extra = pick(extra, 4)
    if (ab & 4 and not ab & 2) or (ib & 4 and not ib & 2):
        return True
    at, it = wrap("Int", ab), wrap("Int", ib)
    invalid = at != it or extra == 3
    if not invalid:
        return True
    ex = ["", ", e: Int", ", e: Int! = 1", ", e: Int!"][extra]
    with NoTracing():
        eng = try_build(PRE + "interface I { x(a: %s): Int }\ntype T implements I { x(a: %s%s): Int }" % (it, at, ex))
    return verdict(eng is None)


# ---- unit obligations on the real GraphQLSchema validators with a SYMBOLIC referring name ---------------------------
# A valid skeleton schema is baked concretely; then the *referring* name of one element is replaced by a symbolic string
# (lookup position only — the defining side stays concrete) and the real validator runs: it must report an error exactly
# when the name does not denote a suitable defined type — for every string.
SKEL = "interface N { id: ID }\ntype A implements N { id: ID x: Int }\ntype B { y: Int }\nunion U = A | B\nenum E { RED GREEN }\ninput In { i: Int }\nscalar My\n" \
       "type Query { a: A f(arg: In): Int u: U }\ntype Mutation { m: Int }"
Scalar("My", schema_name="c12_unit")(_MyScalar)
UNIT = asyncio.run(create_engine(SKEL, schema_name="c12_unit", json_loader=identity))
SCHEMA = UNIT._schema
DEFINED = list(SCHEMA.type_definitions.keys())
INPUT_TYPES = [n for n in DEFINED if type(SCHEMA.type_definitions[n]).__name__ in ("GraphQLScalarType", "GraphQLEnumType", "GraphQLInputObjectType")]


def one_of(t, names):
    for n in names:
        if t == n:
            return True
    return False


@obligation(tier="quick", timeout=120, shards=[{"site": s} for s in ("field", "argument", "input_field", "interface", "query_root", "mutation_root", "subscription_root", "union_member")],
            samples=[{"t": "A"}, {"t": "Nope"}, {"t": ""}, {"t": "In"}],
            symbolic=["t: str — the referring type name (all strings)"], selectors=["shard: which reference is made symbolic"], findings=["F11"],
            bounds="one skeleton schema, 8 reference sites",
            note="the real _validate_* methods report an error for every name that does not denote a defined (resp. input / interface) type, and none for the names that do")
def c12_symbolic_reference(t: str) -> bool:
    """
    post: _
    """
    site = shard()["site"]
    td = SCHEMA.type_definitions
    if site == "field":
        fld = td["Query"].implemented_fields["a"]
        old = fld.gql_type; fld.gql_type = t
        try:
            errs = SCHEMA._validate_schema_named_types()
        finally:
            fld.gql_type = old
        return verdict(bool(errs) != one_of(t, DEFINED))
    if site == "argument":
        arg = td["Query"].implemented_fields["f"].arguments["arg"]
        old = arg.gql_type; arg.gql_type = t
        try:
            errs = SCHEMA._validate_arguments_have_valid_type()
        finally:
            arg.gql_type = old
        return verdict(bool(errs) != one_of(t, INPUT_TYPES))
    if site == "input_field":
        inf = td["In"].input_fields["i"]
        old = inf.gql_type; inf.gql_type = t
        try:
            errs = SCHEMA._validate_input_type_composed_of_input_type()
        finally:
            inf.gql_type = old
        return verdict(bool(errs) != one_of(t, INPUT_TYPES))
    if site == "interface":
        obj = td["A"]
        old = obj.interfaces_names
        obj.interfaces_names = [t]
        try:
            errs = SCHEMA._validate_object_follow_interfaces()
        finally:
            obj.interfaces_names = old
        return verdict(bool(errs) != (t == "N"))
    if site in ("query_root", "mutation_root", "subscription_root"):
        attr = site.split("_")[0] + "_operation_name"
        old = getattr(SCHEMA, attr); setattr(SCHEMA, attr, t)
        try:
            errs = SCHEMA._validate_schema_root_types_exist()
        finally:
            setattr(SCHEMA, attr, old)
        if site == "subscription_root" and finding_open("F11") and t == "Subscription":
            return True          # the undefined default name is not reported (known finding F11)
        return verdict(bool(errs) != one_of(t, DEFINED))
    un = td["U"]
    old = un.types
    un.types = ["A", t]
    try:
        errs = SCHEMA._validate_union_is_acceptable()
    finally:
        un.types = old
    return verdict(bool(errs) == (t == "U"))
