import sys, json, asyncio
sys.path.insert(0, "/verif/probes")
import base
from base import *
from tartiflette import Directive, Scalar
SDL = '''
"""scalar doc"""
scalar MyScalar
directive @tag(n: Int = 3, s: String = "a\\"b", o: Inp = {x: 1, y: [1, 2]}) on FIELD_DEFINITION | OBJECT | FIELD | ENUM_VALUE | ARGUMENT_DEFINITION | INPUT_FIELD_DEFINITION
enum Color { RED @deprecated(reason: "no red") GREEN @deprecated BLUE }
input Inp { x: Int! = 5 y: [Int] = [1, 2] c: Color = RED f: Float = 1.5 s: String = "str" b: Boolean = true n: Int = null inner: Inp }
interface Node { id: ID! }
interface Named { name(full: Boolean = false): String }
type A implements Node & Named { id: ID! name(full: Boolean = false): String old: Int @deprecated(reason: "use new") hidden: Int @nonIntrospectable lst: [[Int!]]! }
type B implements Node { id: ID! }
union U = A | B
type Query { node(id: ID!, o: Inp = {x: 2}): Node u: U ms: MyScalar a(l: [Color!]! = [RED]): A }
type Mutation { set(v: Int): Int }
extend type B { extra: String }
extend enum Color { PINK }
extend union U = Query
extend input Inp { z: Int }
extend interface Node { more: Int }
extend type A { more: Int }
extend type B @tag { more: Int }
'''
@Scalar("MyScalar", schema_name="gt11")
class MS:
    def coerce_output(self, v): return v
    def coerce_input(self, v): return v
    def parse_literal(self, a): return a.value
@Directive("tag", schema_name="gt11")
class Tag:
    pass
try:
    ENG = build(SDL, "gt11", query_cache_decorator=None)
except Exception as e:
    print("BUILD FAILED", type(e).__name__, str(e)[:500]); sys.exit()
Q = """
query { __schema { queryType { name } mutationType { name } subscriptionType { name }
  types { kind name description fields(includeDeprecated: true) { name isDeprecated deprecationReason args { name defaultValue type { ...T } } type { ...T } }
          inputFields { name defaultValue type { ...T } } interfaces { name } enumValues(includeDeprecated: true) { name isDeprecated deprecationReason } possibleTypes { name } }
  directives { name locations args { name defaultValue type { ...T } } } } }
fragment T on __Type { kind name ofType { kind name ofType { kind name ofType { kind name ofType { kind name } } } } }
"""
r = asyncio.run(ENG.execute(Q))
if r.get("errors"): print("ERRORS", r["errors"][:3])
s = r["data"]["__schema"]
def ty(t):
    if t is None: return None
    if t["kind"] == "NON_NULL": return ty(t["ofType"]) + "!"
    if t["kind"] == "LIST": return "[" + ty(t["ofType"]) + "]"
    return t["name"]
print("roots", s["queryType"], s["mutationType"], s["subscriptionType"])
for t in s["types"]:
    if t["name"] in ("Int","Float","String","Boolean","ID","Date","Time","DateTime"): continue
    print(t["kind"], t["name"], "|ifaces", [i["name"] for i in t["interfaces"] or []] if t["interfaces"] is not None else None, "|possible", [p["name"] for p in t["possibleTypes"]] if t["possibleTypes"] is not None else None)
    for f in t["fields"] or []:
        print("    field", f["name"], ty(f["type"]), f["isDeprecated"], f["deprecationReason"], [(a["name"], ty(a["type"]), a["defaultValue"]) for a in f["args"]])
    for f in t["inputFields"] or []:
        print("    input", f["name"], ty(f["type"]), repr(f["defaultValue"]))
    for v in t["enumValues"] or []:
        print("    value", v["name"], v["isDeprecated"], v["deprecationReason"])
print("types listed:", [t["name"] for t in s["types"]])
for d in s["directives"]:
    print("directive", d["name"], d["locations"], [(a["name"], ty(a["type"]), a["defaultValue"]) for a in d["args"]])
r2 = asyncio.run(ENG.execute('{ a: __type(name: "A") { fields { name } } b: __type(name: "A") { fields(includeDeprecated: false) { name } } c: __type(name: "Nope") { name } d: __type(name: "__Type") { name kind } e: __type(name: "Color") { enumValues { name } } }'))
print(json.dumps(r2))
