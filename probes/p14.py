import sys; sys.path.insert(0, "/verif/probes")
from typing import Optional, List
import base, chplug, miniloop2
from base import *
from tartiflette import Directive, Scalar
LOG = []
SCH = "p14"
class Tag:
    def __init__(self, name): self.name = name
    async def on_post_input_coercion(self, directive_args, next_directive, parent_node, value, ctx):
        LOG.append(("in>", self.name, directive_args["n"]))
        v = await next_directive(parent_node, value, ctx)
        LOG.append(("in<", self.name, directive_args["n"], v))
        return ap(v, directive_args["n"])
    async def on_argument_execution(self, directive_args, next_directive, parent_node, argument_definition_node, argument_node, value, ctx):
        LOG.append(("arg>", self.name, directive_args["n"]))
        v = await next_directive(parent_node, argument_definition_node, argument_node, value, ctx)
        return ap(v, directive_args["n"])
    async def on_field_execution(self, directive_args, next_resolver, parent, args, ctx, info):
        LOG.append(("field>", self.name, directive_args["n"], dict(args)))
        v = await next_resolver(parent, args, ctx, info)
        return ap(v, directive_args["n"])
    async def on_pre_output_coercion(self, directive_args, next_directive, value, ctx, info):
        LOG.append(("out>", self.name, directive_args["n"], value))
        v = await next_directive(value, ctx, info)
        return ap(v, directive_args["n"])
def ap(v, n):
    if isinstance(v, dict):
        return {k: ap(x, n) for k, x in v.items()}
    if isinstance(v, int) and not isinstance(v, bool):
        return 10 * v + n
    return v
for d in ("t1", "t2", "q1", "q2"):
    Directive(d, schema_name=SCH)(Tag(d))
@Scalar("S", schema_name=SCH)
class S:
    def coerce_output(self, v): return v
    def coerce_input(self, v): return v
    def parse_literal(self, ast): return int(ast.value)
@Resolver("Query.f", schema_name=SCH)
async def rf(p, a, c, i):
    LOG.append(("resolver", dict(a)))
    return a["i"]["x"]
LOCS = "SCALAR | OBJECT | INPUT_OBJECT | INPUT_FIELD_DEFINITION | ARGUMENT_DEFINITION | FIELD_DEFINITION | FIELD"
SDL = f"""
directive @t1(n: Int!) on {LOCS}
directive @t2(n: Int!) on {LOCS}
directive @q1(n: Int!) on {LOCS}
directive @q2(n: Int!) on {LOCS}
scalar S @t1(n: 1) @t2(n: 2)
input I @t1(n: 3) @t2(n: 4) {{ x: S @t1(n: 5) @t2(n: 6) }}
type Query {{ f(i: I @t1(n: 7) @t2(n: 8)): S @t1(n: 9) @t2(n: 0) }}
"""
ENG = build(SDL, SCH, query_cache_decorator=None)
def run(q, **kw):
    del LOG[:]
    r = miniloop2.MiniLoop().run_until_complete(ENG.execute(q, **kw))
    return r
if __name__ == "__main__":
    print(run("{ f(i: {x: 1}) @q1(n: 1) @q2(n: 2) }"))
    for l in LOG: print("  ", l)
    print(run("query($i: I) { f(i: $i) @q1(n: 1) @q2(n: 2) }", variables={"i": {"x": 1}}))
    for l in LOG: print("  ", l)
    print(run("query($x: S) { f(i: {x: $x}) @q1(n: 1) @q2(n: 2) }", variables={"x": 1}))
    for l in LOG: print("  ", l)
