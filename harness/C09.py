"""C09 — mutation root fields run serially in document order, under every schedule of the nested resolvers.
(DESIGN §4 C09)"""
from vf import env, miniloop
from vf.env import pick, verdict, observe, safe, build, DictCache
from vf.ob import obligation, shard

META = {
    "bounds": "7 mutation documents x 5 engines (one with parent_concurrently=False on the non-null `audit` fields) (2-4 root fields, aliases, fragments at the root, nested selections with a list), <= 4 gated nested resolvers per document "
              "(every completion order), failure placement over {none, each gated nested field, a nullable root, a non-null root, argument coercion of a nullable root, a non-null root whose custom scalar answers null during completion, a nullable root raising a duck-typed coercible exception}; concurrent and sequential engine configurations, mutation root type named Mutation / custom name / added by `extend schema`",
    "outside": "more than 4 simultaneously pending nested resolvers; subscription/query operations (C08)",
    "explanation": "Start/finish log of every resolver: the first event of root field i+1 must come after the last event of root field i's whole subtree.",
}
SDL = """
directive @ab on ARGUMENT_DEFINITION
scalar Tok
type Leaf { n: Int audit: String! }
type Mid { n: Int leaf: Leaf leaves: [Leaf] audit: String! bal: Int }
type Query { a: Int }
type Mutation { first: Mid second: Mid third(v: Int @ab): Int nnroot: Int! tok: Tok! batch: [Mid]! codes: [Int]! picks: [Mid!] }
"""
LOG = []
GATES = {}
FAULTS = {}


def read(parent, name):
    if isinstance(parent, dict):
        return parent.get(name)
    return getattr(parent, name, None)


async def universal(parent, args, ctx, info):
    p = tuple(info.path.as_list())
    LOG.append(("start", p))
    if p in GATES:
        await miniloop.gate(p)
    LOG.append(("end", p))
    if p in FAULTS:
        if FAULTS[p] == "duck":
            raise Quota()
        raise ValueError("boom")
    if info.field_name == "third":
        return args.get("v")
    return read(parent, info.field_name)


class Quota(Exception):
    """a user exception that knows how to render itself (the documented `coerce_value` protocol) without deriving from TartifletteError"""
    def coerce_value(self, *_args, path=None, locations=None, **_kwargs):
        return {"message": "quota exceeded", "path": path, "locations": [l.collect_value() for l in locations or []]}


ARGFAIL = [None]
TOKNULL = [False]


class Tok:
    """a custom scalar that may answer null for a real value (e.g. a blank token): at a non-null root that is a failure produced during completion"""
    def coerce_output(self, v):
        return None if TOKNULL[0] else v

    def coerce_input(self, v):
        return v

    def parse_literal(self, ast):
        return getattr(ast, "value", None)


class AB:
    """argument-definition hook: fails while the arguments of the flagged root field are being coerced (before its resolver can run)"""
    async def on_argument_execution(self, directive_args, next_directive, parent_node, argument_definition_node, argument_node, value, ctx):
        v = await next_directive(parent_node, argument_definition_node, argument_node, value, ctx)
        if ARGFAIL[0] is not None and v == ARGFAIL[0]:
            raise ValueError("argument refused")
        return v


from tartiflette import Directive  # noqa: E402
from tartiflette import Scalar  # noqa: E402
for _n in ("c09_a", "c09_b", "c09_c", "c09_d"):
    Directive("ab", schema_name=_n)(AB())
    Scalar("Tok", schema_name=_n)(Tok)
SDL_NAMED = SDL.replace("type Mutation {", "type Ops {") + "\nschema { query: Query mutation: Ops }\n"      # the mutation root need not be called Mutation
SDL_EXT = SDL.replace("type Mutation {", "type Changes {") + "\nschema { query: Query }\nextend schema { mutation: Changes }\n"
ENGS = [build(SDL, "c09_a", custom_default_resolver=universal, query_cache_decorator=DictCache()),
        build(SDL, "c09_b", custom_default_resolver=universal, query_cache_decorator=DictCache(), coerce_parent_concurrently=False, coerce_list_concurrently=False),
        build(SDL_NAMED, "c09_c", custom_default_resolver=universal, query_cache_decorator=DictCache())]
try:
    ENGS.append(build(SDL_EXT, "c09_d", custom_default_resolver=universal, query_cache_decorator=DictCache()))
except Exception:        # `extend schema` with an operation type may not be supported by the SDL grammar: then only the named variant is used
    pass
# engine "e": the per-resolver option parent_concurrently=False on the non-null fields `audit` (awaited in place while their concurrent siblings are
# only collected): a failing in-place field must not leave siblings of the same root running when the next root starts
from tartiflette import Resolver  # noqa: E402
for _t in ("Mid", "Leaf"):
    Resolver("%s.audit" % _t, schema_name="c09_e", parent_concurrently=False)(universal)
Directive("ab", schema_name="c09_e")(AB())
Scalar("Tok", schema_name="c09_e")(Tok)
ENGS.append(build(SDL, "c09_e", custom_default_resolver=universal, query_cache_decorator=DictCache()))
LEAF = {"n": 3, "audit": "ok"}
MID = {"n": 2, "leaf": LEAF, "leaves": [LEAF, {"n": 4, "audit": "x"}], "audit": "au", "bal": 10}
DATA = {"first": MID, "second": MID, "nnroot": 1, "tok": "t0", "batch": [MID, dict(MID), dict(MID)], "codes": [1, 2, 3], "picks": [dict(MID), dict(MID), dict(MID)]}
DOCS = {
    "M1": ("mutation { first { audit bal n } second { n } third(v: 1) }", [("first", "audit"), ("first", "bal"), ("first", "n"), ("second", "n")], ["first", "second", "third"]),
    "M2": ("mutation { a: first { ...F } ...R b: third(v: 2) } fragment R on %(root)s { second { leaves { n } } } fragment F on Mid { n bal }",
           [("a", "n"), ("a", "bal"), ("second", "leaves", 0, "n"), ("second", "leaves", 1, "n")], ["a", "second", "b"]),
    "M3": ("mutation { first { leaf { audit n } n } second { audit } nnroot third(v: 3) }", [("first", "leaf", "audit"), ("first", "leaf", "n"), ("first", "n"), ("second", "audit")],
           ["first", "second", "nnroot", "third"]),
    "M4": ("mutation { x: third(v: 1) first { leaves { audit n } } y: third(v: 2) }", [("first", "leaves", 0, "audit"), ("first", "leaves", 0, "n"), ("first", "leaves", 1, "audit"), ("first", "leaves", 1, "n")],
           ["x", "first", "y"]),
    # a non-null root LIST of nullable items: a failing item is absorbed as null in the list, the following root fields still run
    "M6": ("mutation { first { n } batch { audit n } codes third(v: 6) }", [("batch", 1, "audit"), ("batch", 0, "n"), ("first", "n")], ["first", "batch", "codes", "third"]),
    # a nullable list of NON-NULL items: one failing item nulls the list while the other items' nested resolvers are still pending — the next root waits for them
    "M7": ("mutation { first { n } picks { audit n } third(v: 7) }", [("picks", 1, "audit"), ("picks", 0, "audit"), ("picks", 2, "audit"), ("picks", 2, "n")], ["first", "picks", "third"]),
    "M5": ("mutation { first { n audit } tok third(v: 5) }", [("first", "n"), ("first", "audit")], ["first", "tok", "third"]),
}
ROOTS = ["Mutation", "Mutation", "Ops", "Changes"][:len(ENGS) - 1] + ["Mutation"]
ARGROOT = {"M1": ("third", 1), "M2": ("b", 2), "M3": ("third", 3), "M4": ("x", 1), "M5": ("third", 5), "M6": ("third", 6), "M7": ("third", 7)}       # (response key, v) of the root field whose argument coercion is made to fail


def doc_text(doc, eng):
    return DOCS[doc][0] % {"root": ROOTS[eng]} if "%(root)s" in DOCS[doc][0] else DOCS[doc][0]


for _i, _e in enumerate(ENGS):
    for _d in DOCS:
        env.run(_e.execute(doc_text(_d, _i), initial_value=DATA))


NONNULL_ROOTS = ("tok", "batch", "codes", "nnroot")


def _nullable_root(roots):
    return [r for r in roots[1:] if r not in NONNULL_ROOTS][0]


def serial(log, roots):
    """first event of root i+1 after the last event of root i's subtree; roots start in document order"""
    idx = {}
    for i, (k, p) in enumerate(log):
        r = p[0]
        lo, hi = idx.get(r, (i, i))
        idx[r] = (min(lo, i), max(hi, i))
    prev_hi = -1
    started = [r for r in roots if r in idx]
    for r in started:
        lo, hi = idx[r]
        if lo <= prev_hi:
            return False
        prev_hi = hi
    # no root is skipped in the middle: the started roots are a prefix of the document order
    return started == roots[:len(started)]


@obligation(tier="quick", timeout=300, shards=[{"doc": d, "eng": e} for d in DOCS for e in range(len(ENGS))],
            samples=[{"c0": 0, "c1": 0, "c2": 0, "c3": 0, "fault": 0}, {"c0": 2, "c1": 1, "c2": 1, "c3": 0, "fault": 2}],
            symbolic=["c0..c3: completion order of the pending nested resolvers"],
            selectors=["fault: none / one of the gated nested fields / the second root field (nullable) / the non-null root / the ARGUMENTS of a nullable root field fail to coerce (argument-definition hook raising)", "shard: document, engine configuration"],
            bounds="every completion order of <= 4 gated nested resolvers x 10 failure placements",
            note="serial start/finish log, nullable failing root does not stop the next, non-null failing root nulls data, response keys in document order")
def c09_serial(c0: int, c1: int, c2: int, c3: int, fault: int) -> bool:
    """
    post: _
    """
    sh = shard()
    _, gates, roots = DOCS[sh["doc"]]
    q = doc_text(sh["doc"], sh["eng"])
    fault = pick(fault, len(gates) + 5)
    del LOG[:]; GATES.clear(); FAULTS.clear(); ARGFAIL[0] = None; TOKNULL[0] = False
    argkey = None
    if fault == len(gates) + 3:
        argkey, ARGFAIL[0] = ARGROOT[sh["doc"]]
    for g in gates:
        GATES[g] = True
    fpath = None
    if 1 <= fault <= len(gates):
        fpath = gates[fault - 1]
    elif fault == len(gates) + 1:
        fpath = (_nullable_root(roots),)       # a nullable root field that is not the first one
    elif fault == len(gates) + 2:
        fpath = ("nnroot",)
        if "tok" in roots:
            fpath = None; TOKNULL[0] = True      # the non-null root `tok` resolves fine, its scalar answers null during completion
    if fault == len(gates) + 4:
        fpath = (_nullable_root(roots),)        # the nullable root again, failing with a duck-typed coercible exception
    if fpath is not None:
        FAULTS[fpath] = "duck" if fault == len(gates) + 4 else True
    cs = [c0, c1, c2, c3]
    k = [0]

    def chooser(n):
        x = cs[k[0]] if k[0] < len(cs) else 0
        k[0] += 1
        return pick(x, n)
    loop = miniloop.MiniLoop(chooser=chooser)
    ok, resp = safe(lambda: loop.run_until_complete(ENGS[sh["eng"]].execute(q, initial_value=DATA)))
    log = list(LOG)
    observe(resp, log)
    if not ok:
        return verdict(False)
    if not serial(log, [r for r in roots if r != argkey]):      # the root whose arguments fail never reaches its resolver: it has no events
        return verdict(False)
    starts = [p for kk, p in log if kk == "start"]; ends = [p for kk, p in log if kk == "end"]
    if set(starts) != set(ends) or len(starts) != len(set(starts)) or loop.pending or not all(t.done() for t in loop.tasks):
        return verdict(False)
    data = resp.get("data")
    nn_failed = (fpath == ("nnroot",) and "nnroot" in roots) or TOKNULL[0]
    if nn_failed:
        return verdict(data is None and bool(resp.get("errors")))
    if data is None or list(data.keys()) != roots:
        return verdict(False)
    # every root ran (a failing nullable root does not prevent the following ones); a root whose ARGUMENTS could not be coerced fails alone:
    # its resolver is not called, it answers null with an error at its path, and the roots after it still run
    if not all((r,) in starts for r in roots if r != argkey):
        return verdict(False)
    if argkey is not None:
        if (argkey,) in starts or data[argkey] is not None or not any(e.get("path") == [argkey] for e in resp.get("errors") or []):
            return verdict(False)
    if fpath is not None and fpath[0] in roots and (len(fpath) == 1 or fpath in starts):
        if not resp.get("errors"):
            return verdict(False)
    if "batch" in roots and fpath is not None and fpath[0] == "batch":
        # the failure sits inside ONE item of the non-null list of nullable items: that item alone is null (or only its nullable leaf), the list and the other roots stand
        b = data.get("batch")
        if not (isinstance(b, list) and len(b) == 3 and data.get("codes") == [1, 2, 3]):
            return verdict(False)
        if fpath == ("batch", 1, "audit") and not (b[1] is None and b[0] is not None and b[2] is not None):
            return verdict(False)
    return verdict(True)
