"""Reference executor written from the June-2018 specification §6 (ExecuteRequest, CollectFields,
ExecuteSelectionSet, ExecuteField, CompleteValue, error handling §6.4.4), synchronous, over the gqlfront AST
and a vf.ref.model schema model.  Nothing here is imported from tartiflette.

Data source: resolve(parent_type, field_name, parent_value, args, path) -> value | raises
             typeof(value, abstract_type, parent_type, field_name) -> object type name
Latitude (DESIGN §4 C02): on a propagating failure the spec allows siblings to be cancelled or run; the reference
runs all of them: `errors` is the maximal set, `nulled` lists per nulled position its candidate causes.
"""
from vf.ref import coerce as C
from vf.ref.model import ABSENT, is_nn, is_list


class FieldError(Exception):
    def __init__(self, path, more=()):
        self.path = path
        self.paths = [path] + list(more)


class RequestError(Exception):
    pass


def leaf_out(m, tname, v):
    """result coercion of built-in scalars for None/bool/int/str/float resolver outputs (spec §3.5)"""
    if tname == "Int":
        if isinstance(v, bool):
            return int(v)
        if isinstance(v, int) and C.I32_MIN <= v <= C.I32_MAX:
            return v
        if isinstance(v, float) and v == v and abs(v) != float("inf") and v == int(v) and C.I32_MIN <= v <= C.I32_MAX:
            return int(v)
        raise ValueError
    if tname == "Float":
        if isinstance(v, bool):
            return float(v)
        if isinstance(v, (int, float)):
            f = float(v)
            if f == f and abs(f) != float("inf"):
                return f
        raise ValueError
    if tname == "String":
        if isinstance(v, str):
            return v
        if isinstance(v, bool):
            return "true" if v else "false"
        if isinstance(v, (int, float)):
            return str(v)
        raise ValueError
    if tname == "Boolean":
        if isinstance(v, bool):
            return v
        if isinstance(v, (int, float)):
            return v != 0
        raise ValueError
    if tname == "ID":
        if isinstance(v, str):
            return v
        if isinstance(v, int) and not isinstance(v, bool):
            return str(v)
        raise ValueError
    c = m.get("custom", {}).get(tname)
    if c is None:
        raise NotImplementedError(tname)
    return c["out"](v)


class Ref:
    def __init__(self, model, doc, resolve, typeof=None, leaf=leaf_out):
        self.m = model; self.doc = doc; self.resolve = resolve; self.typeof = typeof; self.leaf = leaf
        self.frags = {d["name"]["value"]: d for d in doc["definitions"] if d["kind"] == "FragmentDefinition"}
        self.errors = []    # maximal list of error paths (tuples)
        self.nulled = []    # (nulled position, candidate cause paths)
        self.calls = []     # (path, parent_type, field_name, args, parent_value)
        self.nodes_of = {}  # path -> field nodes (for location checks)
        self.vars = {}

    # ---- request level -----------------------------------------------------------------------------------
    def get_operation(self, operation_name):
        ops = [d for d in self.doc["definitions"] if d["kind"] == "OperationDefinition"]
        if operation_name is None:
            if len(ops) != 1:
                raise RequestError("ambiguous")
            return ops[0]
        for o in ops:
            if o["name"] is not None and o["name"]["value"] == operation_name:
                return o
        raise RequestError("unknown operation")

    def vardefs(self, op):
        out = []
        for vd in op["variableDefinitions"] or []:
            out.append((vd["variable"]["name"]["value"], tref_of(vd["type"]), vd["defaultValue"]))
        return out

    def execute(self, operation_name=None, variables=None, root_value=None):
        """-> ordered-pairs data (or None). Raises RequestError / coerce.Bad for request errors."""
        op = self.get_operation(operation_name)
        self.vars = C.coerce_variables(self.m, self.vardefs(op), variables or {})
        root = self.m["roots"][op["operation"]]
        try:
            return self.exec_selset(root, root_value, [op["selectionSet"]], ())
        except FieldError as e:
            self.errors.extend(e.paths)
            self.nulled.append(((), e.paths))
            return None

    # ---- CollectFields -----------------------------------------------------------------------------------
    def included(self, node):
        skip = False; incl = True
        for d in node.get("directives") or []:
            n = d["name"]["value"]
            if n in ("skip", "include"):
                val = C.coerce_literal(self.m, ("NN", "Boolean"), d["arguments"][0]["value"], self.vars)
                if n == "skip" and val is True:
                    skip = True
                if n == "include" and val is False:
                    incl = False
        return (not skip) and incl

    def applies(self, cond, objtype):
        if cond is None:
            return True
        t = cond["name"]["value"]
        if t == objtype:
            return True
        td = self.m["types"][t]
        return td["kind"] in ("INTERFACE", "UNION") and objtype in td["possible"]

    def collect(self, objtype, selset, grouped, visited):
        for sel in selset["selections"]:
            if not self.included(sel):
                continue
            k = sel["kind"]
            if k == "Field":
                key = (sel["alias"] or sel["name"])["value"]
                grouped.setdefault(key, []).append(sel)
            elif k == "FragmentSpread":
                n = sel["name"]["value"]
                if n in visited:
                    continue
                visited.add(n)
                f = self.frags[n]
                if not self.applies(f["typeCondition"], objtype):
                    continue
                self.collect(objtype, f["selectionSet"], grouped, visited)
            else:
                if not self.applies(sel["typeCondition"], objtype):
                    continue
                self.collect(objtype, sel["selectionSet"], grouped, visited)
        return grouped

    # ---- ExecuteSelectionSet / ExecuteField ---------------------------------------------------------------
    def exec_selset(self, objtype, value, fieldsets, path):
        grouped = {}
        visited = set()
        for ss in fieldsets:
            self.collect(objtype, ss, grouped, visited)
        out = []
        failed = []
        for key, nodes in grouped.items():
            fname = nodes[0]["name"]["value"]
            if fname == "__typename":
                out.append((key, objtype)); continue
            fdef = self.m["types"][objtype]["fields"].get(fname)
            if fdef is None:
                continue
            try:
                out.append((key, self.exec_field(objtype, value, fname, fdef, nodes, path + (key,))))
            except FieldError as e:
                failed.extend(e.paths)
        if failed:
            raise FieldError(failed[0], failed[1:])
        return out

    def exec_field(self, objtype, parent, fname, fdef, nodes, path):
        ftype = fdef["type"]
        self.nodes_of[path] = nodes
        try:
            try:
                args = C.coerce_arguments(self.m, fdef["args"], nodes[0].get("arguments"), self.vars)
            except C.Bad:
                raise FieldError(path)
            self.calls.append((path, objtype, fname, args, parent))
            try:
                res = self.resolve(objtype, fname, parent, args, path)
            except FieldError:
                raise
            except Exception:
                raise FieldError(path)
            return self.complete(ftype, nodes, res, path, objtype, fname)
        except FieldError as e:
            if is_nn(ftype):
                raise
            self.errors.extend(e.paths)
            self.nulled.append((path, e.paths))
            return None

    def complete(self, t, nodes, res, path, ptype, fname):
        if is_nn(t):
            r = self.complete(t[1], nodes, res, path, ptype, fname)
            if r is None:
                raise FieldError(path)
            return r
        if res is None:
            return None
        if isinstance(res, Exception):
            raise FieldError(path)
        if is_list(t):
            if not isinstance(res, list):
                raise FieldError(path)
            out = []
            failed = []
            for i, item in enumerate(res):
                try:
                    out.append(self.complete_item(t[1], nodes, item, path + (i,), ptype, fname))
                except FieldError as e:
                    failed.extend(e.paths)
            if failed:
                raise FieldError(failed[0], failed[1:])
            return out
        td = self.m["types"][t]
        if td["kind"] == "SCALAR":
            try:
                return self.leaf(self.m, t, res)
            except ValueError:
                raise FieldError(path)
        if td["kind"] == "ENUM":
            if isinstance(res, str) and res in td["values"]:
                return res
            raise FieldError(path)
        if td["kind"] == "OBJECT":
            rt = t
        else:
            try:
                rt = self.typeof(res, t, ptype, fname)
            except Exception:
                raise FieldError(path)
            ts = self.m["types"]
            if not (isinstance(rt, str) and rt in ts and ts[rt]["kind"] == "OBJECT" and rt in td["possible"]):
                raise FieldError(path)
        return self.exec_selset(rt, res, [n["selectionSet"] for n in nodes if n["selectionSet"]], path)

    def complete_item(self, t, nodes, item, path, ptype, fname):
        try:
            return self.complete(t, nodes, item, path, ptype, fname)
        except FieldError as e:
            if is_nn(t):
                raise
            self.errors.extend(e.paths)
            self.nulled.append((path, e.paths))
            return None


def tref_of(tnode):
    k = tnode["kind"]
    if k == "NonNullType":
        return ("NN", tref_of(tnode["type"]))
    if k == "ListType":
        return ("LIST", tref_of(tnode["type"]))
    return tnode["name"]["value"]


def to_pairs(d):
    """engine dict -> ordered pairs, recursively"""
    if isinstance(d, dict):
        return [(k, to_pairs(v)) for k, v in d.items()]
    if isinstance(d, list):
        return [to_pairs(x) for x in d]
    return d


def errors_ok(resp, ref):
    """C02 error accounting: errors ⊆ E_max, every nulled position has ≥1 of its causes reported, errors present ⇔ E_max ≠ ∅"""
    errs = [tuple(e["path"]) if e.get("path") is not None else None for e in resp.get("errors", [])]
    if ("errors" in resp) != bool(ref.errors):
        return False
    for e in errs:
        if e not in ref.errors:
            return False
    nulled_positions = [q for q, _ in ref.nulled]
    for q, causes in ref.nulled:
        # a position swallowed by a null that propagated further up is not part of `data` any more: only the positions that are
        # visible as null in the final data must be explained (the engine may abandon the siblings of a propagating failure)
        if any(len(p) < len(q) and tuple(q[:len(p)]) == tuple(p) for p in nulled_positions):
            continue
        if not any(c in errs for c in causes):
            return False
    return True


def in_span(loc, node):
    s, e = node["loc"]["start"], node["loc"]["end"]
    p = (loc["line"], loc["column"])
    return (s["line"], s["column"]) <= p < (e["line"], e["column"])


def locations_ok(resp, ref):
    """every error entry: str message, list path, non-empty locations each within one of the failing field's nodes"""
    for e in resp.get("errors", []):
        if not isinstance(e.get("message"), str):
            return False
        p = e.get("path")
        if not isinstance(p, list):
            return False
        # the field whose text must contain the location: the deepest field key of the path
        fp = tuple(p)
        while fp and fp not in ref.nodes_of:
            fp = fp[:-1]
        nodes = ref.nodes_of.get(fp)
        locs = e.get("locations")
        if not nodes or not isinstance(locs, list) or not locs:
            return False
        for l in locs:
            if not any(in_span(l, n) for n in nodes):
                return False
    return True
