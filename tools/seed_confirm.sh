#!/bin/sh
# tools/seed_confirm.sh <seed-id> <property> <agent-worktree>
# Confirms a sub-agent's seeded change in a fresh scratch worktree of /repo HEAD: existing tests still pass, the demo passes
# without the change and fails with it. Stores patch.diff + demo in /verif/seeded/<id>/ and prints a summary line.
set -e
ID=$1; PROP=$2; WT=$3
[ -d "$WT" ] || { echo "no such worktree $WT"; exit 1; }
OUT=/verif/seeded/$ID
mkdir -p $OUT
git -C $WT diff -- tartiflette > $OUT/patch.diff
cp $WT/demo_seed.py $OUT/demo_seed.py
[ -f $WT/SEED_NOTES.md ] && cp $WT/SEED_NOTES.md $OUT/SEED_NOTES.md
S=/var/tmp/vf-seed-$ID
rm -rf $S; git -C /repo worktree prune; git -C /repo worktree add -q --detach $S HEAD
cp $OUT/demo_seed.py $S/
cd $S
T0=$(/venv/bin/python -m pytest -q -p no:cacheprovider --timeout=900 --continue-on-collection-errors 2>&1 | tail -1)
set +e
/venv/bin/python demo_seed.py > $OUT/demo_orig.out 2>&1; D0=$?
git apply $OUT/patch.diff; AP=$?
T1=$(/venv/bin/python -m pytest -q -p no:cacheprovider --timeout=900 --continue-on-collection-errors 2>&1 | tail -1)
/venv/bin/python demo_seed.py > $OUT/demo_seeded.out 2>&1; D1=$?
cd /; git -C /repo worktree remove --force $S
echo "SEED $ID prop=$PROP apply=$AP tests_orig=[$T0] tests_seeded=[$T1] demo_orig_exit=$D0 demo_seeded_exit=$D1"
