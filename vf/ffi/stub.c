#include <stddef.h>
struct GraphQLAstNode;
struct GraphQLAstNode *graphql_parse_string(const char *text, const char **error){ *error = "stub: libgraphqlparser unavailable"; return NULL; }
void graphql_error_free(const char *error){}
void graphql_node_free(struct GraphQLAstNode *node){}
const char *graphql_ast_to_json(const struct GraphQLAstNode *node){ return "{}"; }
