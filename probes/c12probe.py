import sys, asyncio
sys.path.insert(0, "/verif/probes")
import base
from base import *
from tartiflette.schema.registry import SchemaRegistry
CASES = {
 "ok": "type Query { a: Int }",
 "undef field type": "type Query { a: Foo }",
 "undef arg type": "type Query { a(x: Foo): Int }",
 "undef input field type": "input I { x: Foo } type Query { a(i: I): Int }",
 "arg non-input type": "type T { a: Int } type Query { a(x: T): Int }",
 "input field non-input type": "type T { a: Int } input I { x: T } type Query { a(i: I): Int }",
 "iface missing field": "interface N { id: ID } type A implements N { x: Int } type Query { a: A }",
 "iface incompatible type": "interface N { id: ID } type A implements N { id: Int } type Query { a: A }",
 "iface missing arg": "interface N { id(x: Int): ID } type A implements N { id: ID } type Query { a: A }",
 "iface mistyped arg": "interface N { id(x: Int): ID } type A implements N { id(x: String): ID } type Query { a: A }",
 "iface extra required arg": "interface N { id: ID } type A implements N { id(y: Int!): ID } type Query { a: A }",
 "implements non-interface": "type B { b: Int } type A implements B { b: Int } type Query { a: A }",
 "implements undefined": "type A implements Zed { b: Int } type Query { a: A }",
 "no query root": "type Foo { a: Int }",
 "undefined query root": "schema { query: Q } type Foo { a: Int }",
 "undefined mutation root custom": "schema { query: Query mutation: M } type Query { a: Int }",
 "undefined mutation root default-named": "schema { query: Query mutation: Mutation } type Query { a: Int }",
 "undefined subscription root default-named": "schema { query: Query subscription: Subscription } type Query { a: Int }",
 "object without fields": "type E type Query { a: Int }",
 "union self": "union U = U | Query type Query { a: Int }",
 "union undefined member": "union U = Zed | Query type Query { a: U }",
 "dup enum values": "enum C { R R } type Query { a: C }",
 "dup type": "type A { a: Int } type A { b: Int } type Query { a: A }",
 "dup directive": "directive @d on FIELD directive @d on FIELD type Query { a: Int }",
 "scalar without impl": "scalar Foo type Query { a: Foo }",
 "extend unknown": "extend type Zed { a: Int } type Query { a: Int }",
 "extend wrong kind": "enum C { R } extend type C { a: Int } type Query { a: Int }",
 "extend dup field": "type A { a: Int } extend type A { a: Int } type Query { a: A }",
 "extend dup enum value": "enum C { R } extend enum C { R } type Query { a: C }",
 "extend dup union member": "union U = Query extend union U = Query type Query { a: Int }",
 "extend dup input field": "input I { x: Int } extend input I { x: Int } type Query { a(i: I): Int }",
 "syntax": "type Query { a: Int ",
 "valid: list covariance": "interface N { l: [Int] } type A implements N { l: [Int!] } type Query { a: A }",
 "valid: union-typed iface field": "union U = A interface N { u: U } type A implements N { u: A } type Query { a: A }",
 "iface field type undefined": "interface N { id: Foo } type Query { a: Int }",
 "directive arg non-input": "type T { a: Int } directive @d(x: T) on FIELD type Query { a: Int }",
}
for i, (k, sdl) in enumerate(CASES.items()):
    try:
        eng = asyncio.run(create_engine(sdl, schema_name=f"c12_{i}", json_loader=lambda x: x))
        r = asyncio.run(eng.execute("{ __typename }"))
        print(f"BUILT   {k!r}: {r}")
    except BaseException as e:
        print(f"REFUSED {k!r}: {type(e).__name__}: {str(e)[:90]!r}")
