import sys, json, asyncio, math
sys.path.insert(0, "/verif/probes")
import base
from base import *
from decimal import Decimal
from fractions import Fraction
ST = {}
async def universal(parent, args, ctx, info):
    return ST.get(info.field_name)
SDL = """
enum Color { RED GREEN }
type O { x: Int }
type Query { i: Int f: Float s: String b: Boolean id: ID c: Color li: [Int] o: O d: Date }
"""
ENG = build(SDL, "gt3", query_cache_decorator=None, custom_default_resolver=universal)
class Obj:
    x = 5
def gen():
    yield 1
VALUES = [3.0, 3.5, Decimal(3), Fraction(3, 1), Fraction(7, 2), 2**31, -2**31 - 1, 10**400, float("nan"), float("inf"), "12", " 12 ", "1e3", "0x10", "", "abc", b"12", True,
          [1], (1, 2), {1, 2}, gen(), {"x": 1}, Obj(), ValueError("v"), 1e308, 5e-324, -0.0, 2**53 + 1, "RED", "BLUE", ["RED"], None]
for field in ("i", "f", "s", "b", "id", "c", "li", "o"):
    print("==", field)
    for v in VALUES:
        ST.clear(); ST[field] = v
        q = "{ %s%s }" % (field, " { x }" if field == "o" else "")
        try:
            r = asyncio.run(ENG.execute(q))
            d = r["data"][field] if r["data"] else "<data null>"
            try:
                js = json.dumps(r, allow_nan=False)[:0] or "json-ok"
            except Exception as e:
                js = "NOT-JSON(%s)" % type(e).__name__
            flag = ""
            if field == "i" and d is not None and not (isinstance(d, int) and not isinstance(d, bool)): flag = "  <-- non-int Int"
            if field == "f" and d is not None and not (isinstance(d, float) and math.isfinite(d)): flag = "  <-- bad Float"
            if js != "json-ok": flag += "  <-- " + js
            if flag or "errors" not in r:
                print("   %-22r -> %r %s" % (v if not hasattr(v, "gi_frame") else "gen", d, flag))
        except Exception as e:
            print("   %-22r RAISED %r" % (v, e))
