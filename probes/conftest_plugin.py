import ffi_patch
