"""C13 — directive hooks wrap their target exactly once, nested in declaration order, stages compose in the documented
order, identically for literals and variables.  (DESIGN §4 C13)"""
from typing import Optional
from vf import env
from vf.env import pick, pickb, verdict, observe, safe, build, DictCache
from vf.ob import obligation, shard
from tartiflette import Resolver, Directive, Scalar

META = {
    "bounds": "8 decorated schemas (one with hook-less / differently-hooked directives between and after the tagging ones; 0..3 different tagging directives on every attachable element, the same directive twice with different arguments, t1 t2 t1, and one where the second directive of every type comes from an `extend`: scalar, input field, input object, argument, field, enum type, enum value, object type — the latter reached through concrete, interface, union and list-of-interface fields) x "
              "0..2 query-side field directives x 3 ways of supplying the input (literal, whole-object variable, variable nested in the object literal); the value and the "
              "query-side directive arguments are unbounded ints",
    "outside": "interface/union type-level hooks; relative order of enum-value vs enum-type output hooks (the property writes 'enum-value/type'); more than 3 directives per element",
    "explanation": "Every hook maps an int v to 100*v + n (non-commuting), so any re-ordering, omission or double application changes the result polynomial for all v; "
                   "the hook log must equal the expected sequence exactly.",
}
LOG = []


def ap(v, n):
    if isinstance(v, dict):
        return {k: ap(x, n) for k, x in v.items()}
    if isinstance(v, int) and not isinstance(v, bool):
        return 100 * v + n
    return v


class Tag:
    def __init__(self, name):
        self.name = name

    async def on_post_input_coercion(self, directive_args, next_directive, parent_node, value, ctx):
        LOG.append(("in>", self.name, directive_args["n"]))
        v = await next_directive(parent_node, value, ctx)
        LOG.append(("in<", self.name, directive_args["n"]))
        return ap(v, directive_args["n"])

    async def on_argument_execution(self, directive_args, next_directive, parent_node, argument_definition_node, argument_node, value, ctx):
        LOG.append(("arg>", self.name, directive_args["n"]))
        v = await next_directive(parent_node, argument_definition_node, argument_node, value, ctx)
        return ap(v, directive_args["n"])

    async def on_field_execution(self, directive_args, next_resolver, parent, args, ctx, info):
        LOG.append(("field>", self.name, directive_args["n"]))
        v = await next_resolver(parent, args, ctx, info)
        return ap(v, directive_args["n"])

    async def on_pre_output_coercion(self, directive_args, next_directive, value, ctx, info):
        LOG.append(("out>", self.name, directive_args["n"]))
        v = await next_directive(value, ctx, info)
        return ap(v, directive_args["n"])


class NoHooks:
    pass


class HalfHooks:
    """implements a hook kind none of the observed stages uses"""
    async def on_introspection(self, directive_args, next_directive, introspected_element, ctx, info):
        return await next_directive(introspected_element, ctx, info)


class S:
    def coerce_output(self, v):
        return v

    def coerce_input(self, v):
        return v

    def parse_literal(self, ast):
        return int(ast.value)


LOCS = "INTERFACE | UNION | SCALAR | OBJECT | INPUT_OBJECT | INPUT_FIELD_DEFINITION | ARGUMENT_DEFINITION | FIELD_DEFINITION | FIELD | ENUM | ENUM_VALUE"
NAMES = ["t1", "t2", "t3"]
# tags per element and position (two digits: element, position)
TAGS = {"S": [11, 12, 13], "x": [21, 22, 23], "I": [31, 32, 33], "arg": [41, 42, 43], "f": [51, 52, 53], "E": [61, 62, 63], "RED": [71, 72, 73], "O": [81, 82, 83], "earg": [91, 92, 93], "garg": [94, 95, 96]}


def names_of(k):
    """k = 0..3: that many different directives per element; 4: the SAME directive twice with different arguments; 5: t1, t2, t1"""
    return {4: ["t1", "t1"], 5: ["t1", "t2", "t1"], 6: ["t1", "t2"], 7: ["t1", "t2"]}.get(k, NAMES[:k])


def dirs(elem, k):
    if k == 7:
        # schema 7: a directive WITHOUT any hook (@meta) and one with a single unrelated hook (@half) sit between / after the two tagging directives:
        # they contribute nothing and take nothing away
        return "@%s(n: %d) @meta @%s(n: %d) @half" % ("t1", TAGS[elem][0], "t2", TAGS[elem][1])
    return " ".join("@%s(n: %d)" % (nm, TAGS[elem][j]) for j, nm in enumerate(names_of(k)))


def dirs_split(elem, which):
    """schema 6: the type's definition carries the first directive, an `extend` of the type carries the second (same nesting as writing both on the definition)"""
    nm = names_of(6)[which]
    return "@%s(n: %d)" % (nm, TAGS[elem][which])


def sdl(k):
    d = "\n".join("directive @%s(n: Int!) on %s" % (n, LOCS) for n in NAMES + ["q1", "q2"]) + "\ndirective @meta on %s\ndirective @half on %s" % (LOCS, LOCS)
    if k == 6:
        return d + """
scalar S %s
enum Color %s { RED %s GREEN }
input I %s { x: S %s }
interface IO { n: S }
type O implements IO %s { n: S }
type P implements IO { n: S }
union UO = O | P
type Query { f(i: I %s): S %s  e(c: Color %s): Color  o: O  io: IO  uo: UO  ios: [IO]  g(x: S = 7 %s): S  sn: S  s5: S  ls: [S]  on: O  os: [O] }
extend scalar S %s
extend enum Color %s
extend input I %s
extend type O %s
""" % (dirs_split("S", 0), dirs_split("E", 0), dirs("RED", 2), dirs_split("I", 0), dirs("x", 2), dirs_split("O", 0), dirs("arg", 2), dirs("f", 2), dirs("earg", 2), dirs("garg", 2),
       dirs_split("S", 1), dirs_split("E", 1), dirs_split("I", 1), dirs_split("O", 1))
    return d + """
scalar S %s
enum Color %s { RED %s GREEN }
input I %s { x: S %s }
interface IO { n: S }
type O implements IO %s { n: S }
type P implements IO { n: S }
union UO = O | P
type Query { f(i: I %s): S %s  e(c: Color %s): Color  o: O  io: IO  uo: UO  ios: [IO]  g(x: S = 7 %s): S  sn: S  s5: S  ls: [S]  on: O  os: [O] }
""" % (dirs("S", k), dirs("E", k), dirs("RED", k), dirs("I", k), dirs("x", k), dirs("O", k), dirs("arg", k), dirs("f", k), dirs("earg", k), dirs("garg", k))


ENGS = {}
for _k in range(8):
    _name = "c13_%d" % _k
    for _d in NAMES + ["q1", "q2"]:
        Directive(_d, schema_name=_name)(Tag(_d))
    Directive("meta", schema_name=_name)(NoHooks())
    Directive("half", schema_name=_name)(HalfHooks())
    Scalar("S", schema_name=_name)(S)

    @Resolver("Query.f", schema_name=_name)
    async def _rf(parent, args, ctx, info):
        LOG.append(("resolver", args["i"]["x"]))
        return args["i"]["x"]

    @Resolver("Query.e", schema_name=_name)
    async def _re(parent, args, ctx, info):
        LOG.append(("resolver-e", args.get("c")))
        return args.get("c")

    @Resolver("Query.g", schema_name=_name)
    async def _rg(parent, args, ctx, info):
        LOG.append(("resolver-g", args.get("x")))
        return args.get("x")

    for _f, _v in (("sn", None), ("s5", 5), ("ls", [5, None, 6]), ("on", None), ("os", [{"n": 5}, None])):
        def _mk(v):
            async def _r(parent, args, ctx, info):
                return v
            return _r
        Resolver("Query." + _f, schema_name=_name)(_mk(_v))

    @Resolver("Query.o", schema_name=_name)
    async def _ro(parent, args, ctx, info):
        return {"n": 5}

    for _abs in ("io", "uo"):
        @Resolver("Query." + _abs, schema_name=_name)
        async def _rabs(parent, args, ctx, info):
            return {"n": 5, "_typename": "O"}

    @Resolver("Query.ios", schema_name=_name)
    async def _rios(parent, args, ctx, info):
        return [{"n": 5, "_typename": "O"}, {"n": 6, "_typename": "P"}, {"n": 7, "_typename": "O"}]
    ENGS[_k] = build(sdl(_k), _name, query_cache_decorator=None)

QDIRS = ["", "@q1(n: $n1)", "@q1(n: $n1) @q2(n: $n2)", "@q2(n: $n2) @q1(n: $n1)"]


def query(mode, qd):
    vs = []
    if "$n1" in QDIRS[qd]:
        vs.append("$n1: Int!")
    if "$n2" in QDIRS[qd]:
        vs.append("$n2: Int!")
    if mode == 1:
        vs.append("$i: I")
    if mode == 2:
        vs.append("$x: S")
    head = "query Q" + ("(" + ", ".join(vs) + ")" if vs else "")
    arg = ["{x: 1000001}", "$i", "{x: $x}"][mode]
    return head + " { f(i: %s) %s }" % (arg, QDIRS[qd])


from vf import gqlfront  # noqa: E402
ASTS = {(m, q): gqlfront.parse(query(m, q)) for m in range(3) for q in range(4)}


def subst_int(node, n):
    if isinstance(node, list):
        return [subst_int(x, n) for x in node]
    if not isinstance(node, dict):
        return node
    if node.get("kind") == "IntValue" and node["value"] == "1000001":
        return dict(node, value=n)
    return {k: subst_int(x, n) for k, x in node.items()}


def expected(k, qd, v, n1, n2, qlist=None):
    """(value the resolver receives, value in data, expected log)"""
    log = []
    NM = names_of(k)
    k = len(NM)

    def stage_in(elem, val):
        tags = TAGS[elem][:len(NM)]
        for j, t in enumerate(tags):
            log.append(("in>", NM[j], t))
        for j in range(len(tags) - 1, -1, -1):
            log.append(("in<", NM[j], tags[j]))
            val = ap(val, tags[j])
        return val
    val = stage_in("S", v)
    val = stage_in("x", val)
    val = stage_in("I", val)
    for j, t in enumerate(TAGS["arg"][:k]):
        log.append(("arg>", NM[j], t))
    for t in reversed(TAGS["arg"][:k]):
        val = ap(val, t)
    q = {0: [], 1: [("q1", n1)], 2: [("q1", n1), ("q2", n2)], 3: [("q2", n2), ("q1", n1)]}[qd] if qlist is None else qlist
    for name, n in q:
        log.append(("field>", name, n))
    for j, t in enumerate(TAGS["f"][:k]):
        log.append(("field>", NM[j], t))
    log.append(("resolver", val))
    seen = val
    for t in reversed(TAGS["f"][:k]):
        val = ap(val, t)
    for name, n in reversed(q):
        val = ap(val, n)
    for j, t in enumerate(TAGS["S"][:k]):
        log.append(("out>", NM[j], t))
    for t in reversed(TAGS["S"][:k]):
        val = ap(val, t)
    return seen, val, log


def same_log(got, exp):
    if len(got) != len(exp):
        return False
    for g, e in zip(got, exp):
        if len(g) != len(e) or g[0] != e[0]:
            return False
        for a, b in zip(g[1:], e[1:]):
            if a != b:
                return False
    return True


@obligation(tier="quick", timeout=200, shards=[{"k": k, "qd": qd} for k in range(8) for qd in range(4)],
            samples=[{"v": 1, "n1": 7, "n2": 9, "mode": 0}, {"v": -5, "n1": 0, "n2": 100, "mode": 2}],
            symbolic=["v: int (unbounded) — the value flowing through the chain", "n1, n2: int — arguments of the query-side directives (through variables)"],
            selectors=["mode: literal / whole-object variable / variable nested in the object literal", "shard: directives per element (0..3), query-side directives (none, one, two, two swapped)"],
            bounds="4 schemas x 4 query-side layouts x 3 supply modes",
            note="result == expected composition polynomial; hook log == expected sequence (each instance exactly once, with its own arguments); identical for literal and variable supply")
def c13_chain(v: int, n1: int, n2: int, mode: int) -> bool:
    """
    post: _
    """
    sh = shard()
    k, qd = sh["k"], sh["qd"]
    mode = pick(mode, 3)
    if not (-2 ** 31 <= n1 < 2 ** 31 and -2 ** 31 <= n2 < 2 ** 31):
        return True          # $n1/$n2 are Int! variables: values outside 32 bits are refused (C04's subject)
    del LOG[:]
    variables = {}
    if "$n1" in QDIRS[qd]:
        variables["n1"] = n1
    if "$n2" in QDIRS[qd]:
        variables["n2"] = n2
    ast = ASTS[(mode, qd)]
    if mode == 0:
        ast = subst_int(ast, v)
    elif mode == 1:
        variables["i"] = {"x": v}
    else:
        variables["x"] = v
    old = env.FFI._parse_to_json_ast
    env.FFI._parse_to_json_ast = lambda q: ast
    try:
        ok, r = safe(lambda: env.run(ENGS[k].execute(query(mode, qd), variables=variables)))
    finally:
        env.FFI._parse_to_json_ast = old
    log = list(LOG)
    observe(r, log)
    if not ok or r.get("errors"):
        return verdict(False)
    seen, val, elog = expected(k, qd, v, n1, n2)
    observe(("expected", seen, val, elog))
    return verdict(r["data"]["f"] == val and same_log(log, elog))


# ---- the same response key selected several times (directly, through an inline fragment, through a named fragment): the field executes
# once and EVERY occurrence's query-side directives govern that execution
F_ = "f(i: {x: 1000001})"
MERGED = [
    ("query Q($n1: Int!, $n2: Int!) { %s @q1(n: $n1) ... on Query { %s @q2(n: $n2) } }" % (F_, F_), [["q1"], ["q2"]]),
    ("query Q($n1: Int!) { %s ...F } fragment F on Query { %s @q1(n: $n1) }" % (F_, F_), [[], ["q1"]]),
    ("query Q($n1: Int!, $n2: Int!) { ...F %s @q2(n: $n2) } fragment F on Query { %s @q1(n: $n1) }" % (F_, F_), [["q1"], ["q2"]]),
    ("query Q($n1: Int!, $n2: Int!) { %s %s @q1(n: $n1) @q2(n: $n2) }" % (F_, F_), [[], ["q1", "q2"]]),
    ("query Q($n1: Int!, $n2: Int!) { %s @q2(n: $n2) ... on Query { ... on Query { %s @q1(n: $n1) } } %s }" % (F_, F_, F_), [["q2"], ["q1"], []]),
]
MASTS = [gqlfront.parse(t) for t, _ in MERGED]


@obligation(tier="quick", timeout=200, shards=[{"k": k, "doc": d} for k in (0, 1, 2, 3, 5) for d in range(len(MERGED))],
            quick_shards=[i for i, (k, d) in enumerate((k, d) for k in (0, 1, 2, 3, 5) for d in range(len(MERGED))) if k in (0, 2)],
            samples=[{"v": 1, "n1": 7, "n2": 9}, {"v": -3, "n1": 0, "n2": 0}],
            symbolic=["v: int (unbounded)", "n1, n2: int — arguments of the query-side directives (variables)"],
            selectors=["shard: schema-side directives per element, document (5 ways of selecting the same field more than once, directives on the first / a later / a fragment's occurrence)"],
            bounds="5 documents x 5 schemas",
            note="a field selected several times under one response key executes once; the query-side directives of EVERY occurrence wrap that execution exactly once each, "
                 "outside the schema-side ones, declaration order kept within an occurrence (the relative order of different occurrences is free)")
def c13_merged(v: int, n1: int, n2: int) -> bool:
    """
    post: _
    """
    sh = shard()
    k, d = sh["k"], sh["doc"]
    if not (-2 ** 31 <= n1 < 2 ** 31 and -2 ** 31 <= n2 < 2 ** 31):
        return True
    text, occ = MERGED[d]
    ast = subst_int(MASTS[d], v)
    variables = {"n1": n1}
    if "$n2" in text:
        variables["n2"] = n2
    del LOG[:]
    old = env.FFI._parse_to_json_ast
    env.FFI._parse_to_json_ast = lambda q: ast
    try:
        ok, r = safe(lambda: env.run(ENGS[k].execute(text, variables=variables)))
    finally:
        env.FFI._parse_to_json_ast = old
    log = list(LOG)
    observe(r, log)
    if not ok or r.get("errors"):
        return verdict(False)
    got_q = [e[1] for e in log if e[0] == "field>" and e[1] in ("q1", "q2")]
    want = [n for o in occ for n in o]
    if sorted(got_q) != sorted(want):
        return verdict(False)          # an occurrence's directive did not run, or ran more than once
    for o in occ:
        idx = [got_q.index(n) for n in o]
        if idx != sorted(idx):
            return verdict(False)      # declaration order within one occurrence
    vals = {"q1": n1, "q2": n2}
    seen, val, elog = expected(k, 0, v, n1, n2, qlist=[(n, vals[n]) for n in got_q])
    observe(("expected", seen, val, elog))
    return verdict(r["data"]["f"] == val and same_log(log, elog))


# ---- an argument that takes its SCHEMA DEFAULT (omitted, or bound to a variable without runtime value) goes through the same hooks as a supplied one
GDOCS = ["{ g }", "query Q($x: S) { g(x: $x) }", "{ g(x: 1000001) }", "query Q($x: S) { g(x: $x) }"]
GASTS = [gqlfront.parse(t) for t in GDOCS]


@obligation(tier="quick", timeout=120, shards=[{"k": k} for k in range(6)],
            samples=[{"v": 3, "mode": 0}, {"v": -1, "mode": 1}, {"v": 7, "mode": 2}, {"v": 0, "mode": 3}],
            symbolic=["v: int (unbounded) — the supplied value (modes 2, 3)"],
            selectors=["mode: argument omitted / bound to a variable without runtime value (both take the schema default 7) / literal / provided variable", "shard: directives per element"],
            bounds="6 schemas x 4 supply modes",
            note="a defaulted argument: type-level input hooks, then the argument's hooks (declaration order, each exactly once), then the resolver, then the output hooks — identically whether the "
                 "value is the schema default, a literal or a variable")
def c13_default_arg(v: int, mode: int) -> bool:
    """
    post: _
    """
    k = shard()["k"]
    mode = pick(mode, 4)
    NM = names_of(k); n = len(NM)
    val = 7 if mode in (0, 1) else v
    ast = GASTS[mode]
    if mode == 2:
        ast = subst_int(ast, v)
    variables = {"x": v} if mode == 3 else {}
    del LOG[:]
    old = env.FFI._parse_to_json_ast
    env.FFI._parse_to_json_ast = lambda q: ast
    try:
        ok, r = safe(lambda: env.run(ENGS[k].execute(GDOCS[mode], variables=variables)))
    finally:
        env.FFI._parse_to_json_ast = old
    log = list(LOG)
    observe(r, log)
    if not ok or r.get("errors"):
        return verdict(False)
    elog = []
    for j, t in enumerate(TAGS["S"][:n]):
        elog.append(("in>", NM[j], t))
    for j in range(n - 1, -1, -1):
        elog.append(("in<", NM[j], TAGS["S"][j]))
        val = ap(val, TAGS["S"][j])
    for j, t in enumerate(TAGS["garg"][:n]):
        elog.append(("arg>", NM[j], t))
    for t in reversed(TAGS["garg"][:n]):
        val = ap(val, t)
    elog.append(("resolver-g", val))
    for j, t in enumerate(TAGS["S"][:n]):
        elog.append(("out>", NM[j], t))
    for t in reversed(TAGS["S"][:n]):
        val = ap(val, t)
    observe(("expected", val, elog))
    return verdict(r["data"]["g"] == val and same_log(log, elog))


@obligation(tier="quick", timeout=60, shards=[{"k": k} for k in range(6)], samples=[{"which": 0}, {"which": 1}],
            selectors=["which: list of a decorated scalar / list of a decorated object type", "shard: directives per element"], bounds="6 schemas x 2 lists with a null item",
            note="a null ITEM of a list gets exactly the type-level output hooks a null FIELD value of the same type gets, a non-null item those of a non-null field value: "
                 "the hook log of `[T]` is the sum of the logs of its items taken one by one")
def c13_null_items(which: int) -> bool:
    """
    post: _
    """
    k = shard()["k"]
    which = pick(which, 2)

    def outs(q):
        del LOG[:]
        ok, r = safe(lambda: env.run(ENGS[k].execute(q)))
        observe(q, r, list(LOG))
        if not ok or r.get("errors"):
            return None, None
        return r["data"], sorted((e[1], e[2]) for e in LOG if e[0] == "out>")
    if which == 0:
        dn, ln = outs("{ sn }"); d5, l5 = outs("{ s5 }"); dl, ll = outs("{ ls }")
        if ln is None or l5 is None or ll is None:
            return verdict(False)
        return verdict(ll == sorted(l5 + ln + l5) and dl["ls"][1] == dn["sn"] and dl["ls"][0] == d5["s5"])
    dn, ln = outs("{ on { n } }"); do, lo = outs("{ o { n } }"); dl, ll = outs("{ os { n } }")
    if ln is None or lo is None or ll is None:
        return verdict(False)
    return verdict(ll == sorted(lo + ln) and dl["os"][1] == dn["on"] and dl["os"][0] == do["o"])


@obligation(tier="quick", timeout=120, shards=[{"k": k} for k in range(8)],
            samples=[{"which": 0, "lit": True}, {"which": 1, "lit": False}],
            selectors=["which: enum round trip / object-typed field", "lit: enum supplied as literal or through a variable"], bounds="4 schemas x 2 positions x 2 supply modes",
            note="enum type/value hooks, argument hooks and object type-level hooks: each instance exactly once per value, input hooks in declaration order, same for literal and variable")
def c13_enum_object(which: int, lit: bool) -> bool:
    """
    post: _
    """
    NM = names_of(shard()["k"])
    k = shard()["k"]
    n = len(NM)
    which = pick(which, 2); lit = pickb(lit)
    del LOG[:]
    if which == 0:
        q = "{ e(c: RED) }" if lit else "query Q($c: Color) { e(c: $c) }"
        ok, r = safe(lambda: env.run(ENGS[k].execute(q, variables={} if lit else {"c": "RED"})))
        log = list(LOG)
        observe(r, log)
        if not ok or r.get("errors") or r["data"] != {"e": "RED"}:
            return verdict(False)
        ins = [e for e in log if e[0] == "in>"]
        outs = [e for e in log if e[0] == "out>"]
        args = [e for e in log if e[0] == "arg>"]
        exp_in = sorted([(NM[j], TAGS[el][j]) for el in ("E", "RED") for j in range(n)])
        if sorted((e[1], e[2]) for e in ins) != exp_in or sorted((e[1], e[2]) for e in outs) != exp_in:
            return verdict(False)
        if [(e[1], e[2]) for e in args] != [(NM[j], TAGS["earg"][j]) for j in range(n)]:
            return verdict(False)
        # within one element: declaration order
        for el in ("E", "RED"):
            sub = [e[2] for e in ins if e[2] in TAGS[el]]
            if sub != TAGS[el][:n]:
                return verdict(False)
        return verdict(True)
    def through(v, with_o):
        if with_o:
            for t in reversed(TAGS["O"][:n]):
                v = ap(v, t)          # the object-level hook sees (and here rewrites) the whole object value
        for t in reversed(TAGS["S"][:n]):
            v = ap(v, t)
        return v
    o_hooks = [(NM[j], TAGS["O"][j]) for j in range(n)]
    s_hooks = [(NM[j], TAGS["S"][j]) for j in range(n)]
    # the same object type reached through a concrete field, an interface field, a union field and a list of the interface:
    # its type-level output hooks run exactly once per value in every case
    for q, expd, exph in (("{ o { n } }", {"o": {"n": through(5, True)}}, o_hooks + s_hooks),
                          ("{ io { n } }", {"io": {"n": through(5, True)}}, o_hooks + s_hooks),
                          ("{ uo { ... on O { n } } }", {"uo": {"n": through(5, True)}}, o_hooks + s_hooks),
                          ("{ ios { n } }", {"ios": [{"n": through(5, True)}, {"n": through(6, False)}, {"n": through(7, True)}]}, None)):
        del LOG[:]
        ok, r = safe(lambda: env.run(ENGS[k].execute(q)))
        log = list(LOG)
        observe(q, r, log)
        if not ok or r.get("errors") or r["data"] != expd:
            return verdict(False)
        outs = [(e[1], e[2]) for e in log if e[0] == "out>"]
        if exph is not None and outs != exph:
            return verdict(False)
        if exph is None and sorted(outs) != sorted(o_hooks * 2 + s_hooks * 3):
            return verdict(False)
    return verdict(True)


# ---- string-valued stages: what an input hook RETURNS is what the next stage sees (the Tag hooks above rewrite ints only, so a hook on an
# ---- enum value / enum type / String position whose return value is dropped was invisible) -------------------------------------------------------
class Rw:
    """rewrites a string value: v -> v + suffix (non-commuting, so order, omission and dropped return values all show)"""
    async def on_post_input_coercion(self, directive_args, next_directive, parent_node, value, ctx):
        v = await next_directive(parent_node, value, ctx)
        LOG.append(("rw", directive_args["s"], v))
        return v + directive_args["s"] if isinstance(v, str) else v


_RWN = "c13_rw"
Directive("rw", schema_name=_RWN)(Rw())


@Resolver("Query.saw", schema_name=_RWN)
async def _rsaw(parent, args, ctx, info):
    LOG.append(("resolver-saw", args))
    return repr(sorted(args.items(), key=lambda kv: kv[0]))


RW_ENG = build("""
directive @rw(s: String!) on ENUM | ENUM_VALUE | INPUT_FIELD_DEFINITION | ARGUMENT_DEFINITION | SCALAR
enum Color @rw(s: "+E") { RED @rw(s: "+v1") @rw(s: "+v2") GREEN BLUE @rw(s: "+b") }
enum Plain { P1 @rw(s: "+p") P2 }
input In { c: Color @rw(s: "+f") cs: [Color] p: Plain }
type Query { saw(c: Color, cs: [Color], p: Plain, i: In, d: Color = RED): String }
""", _RWN, query_cache_decorator=None)

# (argument text with literals, variable definitions, the same argument text with variables, variables)
RW_CASES = [
    ("c: RED", "$a: Color", "c: $a", {"a": "RED"}),
    ("c: GREEN", "$a: Color", "c: $a", {"a": "GREEN"}),
    ("c: BLUE", "$a: Color", "c: $a", {"a": "BLUE"}),
    ("p: P1", "$a: Plain", "p: $a", {"a": "P1"}),
    ("cs: [RED, GREEN, BLUE]", "$a: [Color]", "cs: $a", {"a": ["RED", "GREEN", "BLUE"]}),
    ("cs: [RED, GREEN]", "$a: Color", "cs: [$a, GREEN]", {"a": "RED"}),
    ("cs: RED", "$a: [Color]", "cs: $a", {"a": "RED"}),
    ("i: {c: RED, p: P1}", "$a: In", "i: $a", {"a": {"c": "RED", "p": "P1"}}),
    ("i: {c: BLUE, cs: [RED]}", "$a: Color, $b: Color", "i: {c: $a, cs: [$b]}", {"a": "BLUE", "b": "RED"}),
    ("c: BLUE, p: P1", "$a: Color = BLUE, $b: Plain = P1", "c: $a, p: $b", {}),
]
# what the resolver must see, written by hand from the SDL above. Rw rewrites AFTER calling the next stage, so of two directives on one element the
# first declared (outermost) appends last. The property does not order enum-value against enum-type hooks ("enum-value/type"): both orders are
# accepted, consistently for the whole request. The input field's hook comes after both. (`d` has a schema default, coerced through the same hooks.)
def rw_expect(value_first):
    def e(name, vs):
        return name + vs + "+E" if value_first else name + "+E" + vs
    _R, _G, _B, _P1 = e("RED", "+v2+v1"), e("GREEN", ""), e("BLUE", "+b"), "P1+p"
    return [
        {"c": _R, "d": _R}, {"c": _G, "d": _R}, {"c": _B, "d": _R}, {"p": _P1, "d": _R},
        {"cs": [_R, _G, _B], "d": _R}, {"cs": [_R, _G], "d": _R}, {"cs": [_R], "d": _R},
        {"i": {"c": _R + "+f", "p": _P1}, "d": _R}, {"i": {"c": _B + "+f", "cs": [_R]}, "d": _R},
        {"c": _B, "p": _P1, "d": _R},
    ]


RW_EXPECT = [rw_expect(True), rw_expect(False)]


@obligation(tier="quick", timeout=120, samples=[{"case": 0, "lit": True}, {"case": 7, "lit": False}, {"case": 9, "lit": False}],
            selectors=["case: which of %d argument shapes" % len(RW_CASES), "lit: literals or variables"], bounds="1 schema with string-rewriting input hooks on enum values (0, 1, 2 per value), an enum type, an input field x 10 argument shapes x literal/variable",
            note="what an input hook returns is what the resolver sees, identically for a literal and a variable (hand-written expectations)")
def c13_rewriting_input_hooks(case: int, lit: bool) -> bool:
    """
    post: _
    """
    case = pick(case, len(RW_CASES)); lit = pickb(lit)
    larg, vdefs, varg, variables = RW_CASES[case]
    q = "{ saw(%s) }" % larg if lit else "query Q(%s) { saw(%s) }" % (vdefs, varg)
    del LOG[:]
    ok, r = safe(lambda: env.run(RW_ENG.execute(q, variables={} if lit else variables)))
    log = list(LOG)
    observe(q, r, log)
    if not ok or r.get("errors"):
        return verdict(False)
    seen = [e[1] for e in log if e[0] == "resolver-saw"]
    return verdict(len(seen) == 1 and (seen[0] == RW_EXPECT[0][case] or seen[0] == RW_EXPECT[1][case]))
