import asyncio, collections
from asyncio import events, futures, tasks

class _Handle:
    __slots__ = ("cb", "args", "ctx", "cancelled_")
    def __init__(self, cb, args, ctx):
        self.cb = cb; self.args = args; self.ctx = ctx; self.cancelled_ = False
    def cancel(self): self.cancelled_ = True
    def cancelled(self): return self.cancelled_

class MiniLoop(asyncio.AbstractEventLoop):
    def __init__(self, chooser=None, max_steps=100000):
        self._ready = collections.deque()
        self.pending = []          # (tag, future) gates waiting for release
        self.chooser = chooser
        self.steps = 0
        self.max_steps = max_steps
        self.tasks = []
        self.releases = []
    def get_debug(self): return False
    def is_running(self): return True
    def is_closed(self): return False
    def time(self): return 0.0
    def call_soon(self, cb, *args, context=None):
        h = _Handle(cb, args, context); self._ready.append(h); return h
    def create_future(self): return futures.Future(loop=self)
    def create_task(self, coro, *, name=None, context=None):
        t = tasks.Task(coro, loop=self, name=name, context=context); self.tasks.append(t); return t
    def call_exception_handler(self, context): pass
    def gate(self, tag):
        fut = self.create_future(); self.pending.append((tag, fut)); return fut
    def run_until_complete(self, coro):
        prev = events._get_running_loop(); events._set_running_loop(self)
        try:
            t = self.create_task(coro)
            while not t.done():
                self.steps += 1
                if self.steps > self.max_steps: raise RuntimeError("step budget")
                if self._ready:
                    h = self._ready.popleft()
                    if not h.cancelled_:
                        (h.ctx.run(h.cb, *h.args) if h.ctx is not None else h.cb(*h.args))
                elif self.pending:
                    n = len(self.pending)
                    i = 0 if (self.chooser is None or n == 1) else self.chooser(n)
                    tag, fut = self.pending[i]; del self.pending[i]
                    self.releases.append(tag)
                    if not fut.done():          # a gate whose waiter was cancelled by the code under test: nothing to release
                        fut.set_result(None)
                else:
                    raise RuntimeError("deadlock")
            return t.result()
        finally:
            events._set_running_loop(prev)

async def gate(tag):
    await asyncio.get_running_loop().gate(tag)
