"""C03 — whatever resolvers return, `execute` does not raise and non-null `data` conforms to schema and selection;
what cannot conform is nulled under the C02 rules and reported; the response is JSON-serialisable. (DESIGN §4 C03)"""
import json, math
from decimal import Decimal
from fractions import Fraction
from typing import Optional
from vf import env, world
from vf.env import pick, verdict, observe, safe
from vf.ob import obligation, shard, finding_open
from vf.ref.execute import Ref, to_pairs
from vf.ref.conform import conforms, null_positions, json_ok
from vf.ref.model import named
from vf import gqlfront
from crosshair.tracers import NoTracing

META = {
    "bounds": "schema X, layouts 0 and 7; 3 documents (2 queries, 1 mutation with a non-null root field) covering a leaf of every scalar kind, enum, custom scalar, lists, objects, interface and union positions; "
              "one adversarial value per request at any field instance: symbolic None/bool/int(unbounded)/str(all strings, non-numeric positions) or one of "
              "a 65-entry catalogue (non-finite/huge/denormal floats, huge ints, numeric strings, bytes, tuples, sets, generators, objects, exceptions, Decimal/Fraction, nested garbage)",
    "outside": "symbolic floats and numeric strings at Int/Float positions (numeric laws for all floats: C10/E2); several adversarial values in one request (C02 pairs)",
    "explanation": "Oracle: structural conformance checker vf/ref/conform.py + null/err accounting relative to the fault-free response.",
}

DOCS = {
    "D1": "{ nn n mid { leaf { n s b i f my } leaves { n } } color a { color id n } mids { n } }",
    "D3": "mutation { first: set(v: 1) bump deep { n leaf { n s } leaves { n } } other }",      # serially executed root fields, one of them non-null
    "D2": "{ node { id __typename } nodes { id ... on A { n } } us { __typename ... on A { n } ... on B { flag } } u { ... on B { flag } } mid { n } }",
}
ASTS = {k: gqlfront.parse(v) for k, v in DOCS.items()}
ENGS = {b: world.make_engine("c03_%d" % b, b, "univ") for b in (0, 7)}
MODELS = {b: world.model(b) for b in (0, 7)}
LEAF = {"n": 3, "s": "s", "b": True, "i": "i1", "f": 1.5, "my": 1}
MID = {"n": 2, "leaf": LEAF, "leaves": [LEAF, dict(LEAF)]}
NODE_A = {"_typename": "A", "id": "a", "n": 1, "color": "RED", "peer": None}
NODE_B = {"_typename": "B", "id": "b2", "flag": False}
DATA = {"n": 1, "nn": 4, "mid": MID, "mids": [MID, dict(MID)], "node": NODE_A, "us": [NODE_A, NODE_B], "nodes": [NODE_B, NODE_A],
        "u": NODE_B, "a": NODE_A, "color": "GREEN", "bump": 5, "deep": MID, "other": 6}


class Weird:
    def __str__(self):
        raise RuntimeError("no str")


class L2(list):
    pass


def _gen():
    yield 1


class TypeRef:
    """stands for the schema's own type OBJECT of that name (a runtime type may be designated by name or by the GraphQLObjectType itself); resolved per engine in check()"""
    def __init__(self, name):
        self.name = name


def _typerefs(v, eng):
    if isinstance(v, TypeRef):
        return eng._schema.find_type(v.name)
    if isinstance(v, dict):
        return {k: _typerefs(x, eng) for k, x in v.items()}
    if isinstance(v, list):
        return [_typerefs(x, eng) for x in v]
    return v


CATALOGUE = [
    lambda: float("nan"), lambda: float("inf"), lambda: float("-inf"), lambda: -0.0, lambda: 1e308, lambda: 5e-324,
    lambda: 2.0 ** 31, lambda: -2.0 ** 31, lambda: 2.0 ** 53 + 2, lambda: 3.0, lambda: 1.5, lambda: 2 ** 31, lambda: -2 ** 31 - 1,
    lambda: 10 ** 400, lambda: -10 ** 400, lambda: "3", lambda: "3.5", lambda: "abc", lambda: "", lambda: " ", lambda: "1e999",
    lambda: "nan", lambda: "RED", lambda: "BLUE", lambda: "2147483648", lambda: b"bytes", lambda: (1, 2), lambda: {1, 2},
    lambda: _gen(), lambda: object(), lambda: world.Obj({"n": 1, "id": "o", "_typename": "A"}), lambda: {1: 2},
    lambda: ValueError("as value"), lambda: [[1]], lambda: [None], lambda: [1, "a"], lambda: {"_typename": "Zzz"},
    lambda: {"_typename": "C", "x": 1}, lambda: Decimal(3), lambda: Fraction(3, 1), lambda: Decimal("1.5"), lambda: Decimal("NaN"),
    lambda: True, lambda: False, lambda: Weird(), lambda: L2([1]), lambda: [], lambda: {}, lambda: (lambda: 1), lambda: 0, lambda: "０",
    lambda: [{"_typename": "A", "id": None}], lambda: {"_typename": "A", "id": None}, lambda: 1e400, lambda: complex(1, 1),
    lambda: "OBJECT", lambda: "FIELD_DEFINITION", lambda: "red", lambda: "Query",      # values of OTHER enums (introspection's), wrong case, a type name
    # the runtime type designated by the schema's type OBJECT instead of its name: a member, a non-member object type, a non-object type, in a list
    lambda: {"_typename": TypeRef("A"), "id": "ta", "n": 1}, lambda: {"_typename": TypeRef("C"), "id": "tc", "x": 1}, lambda: {"_typename": TypeRef("Leaf"), "id": "tl", "n": 1},
    lambda: {"_typename": TypeRef("Node"), "id": "tn"}, lambda: [{"_typename": TypeRef("B"), "id": "tb", "flag": True}, {"_typename": TypeRef("C"), "id": "tc2", "x": 2}],
    lambda: world.Obj({"_typename": TypeRef("C"), "id": "oc", "x": 3}),
]
NOT_JSON = {0, 1, 2, 53, 25, 59, 60, 61, 62, 63, 64, 26, 27, 28, 29, 30, 31, 32, 38, 39, 40, 41, 44, 48, 54}     # entries a pass-through custom scalar would leak by design


def _warm():
    for e in ENGS.values():
        for q in DOCS.values():
            env.run(e.execute(q, initial_value=DATA))


_warm()


def _points(doc, b):
    world.reset()
    r = Ref(MODELS[b], ASTS[doc], world.ref_resolve, world.typeof_default)
    exp = r.execute(None, {}, DATA)
    m = MODELS[b]["types"]
    return [c[0] for c in r.calls], [named(m[c[1]]["fields"][c[2]]["type"]) for c in r.calls]


_P = {(d, b): _points(d, b) for d in DOCS for b in (0, 7)}
BASE = {}
for (d, b) in _P:
    world.reset()
    BASE[(d, b)] = env.run(ENGS[b].execute(DOCS[d], initial_value=DATA))["data"]


def is_prefix(p, q):
    return len(p) <= len(q) and tuple(q[:len(p)]) == tuple(p)


def lookup(data, path):
    for k in path:
        if data is None:
            return None
        data = data[k]
    return data


def check(doc, b, p, value, do_json):
    world.reset()
    with NoTracing():
        value = _typerefs(value, ENGS[b]) if not isinstance(value, world.Obj) else world.Obj(_typerefs(dict(value.__dict__), ENGS[b]))
    world.FAULTS[p] = lambda parent, fname: value
    ok, resp = safe(lambda: env.run(ENGS[b].execute(DOCS[doc], initial_value=DATA)))
    observe(resp)
    if not ok or not isinstance(resp, dict) or "data" not in resp:
        return False
    data = resp["data"]
    op = ASTS[doc]["definitions"][0]
    if not conforms(MODELS[b], ASTS[doc], op, {}, data):
        observe("does not conform")
        return False
    errs = resp.get("errors")
    if errs is not None and (not isinstance(errs, list) or not errs):
        return False
    epaths = []
    for e in errs or []:
        if not isinstance(e.get("message"), str) or not isinstance(e.get("path"), list):
            return False
        epaths.append(tuple(e["path"]))
        # an error must stem from the injected value: at the fault point or inside its subtree
        if not is_prefix(p, epaths[-1]):
            observe("error not attributable to the fault", e)
            return False
    base = BASE[(doc, b)]
    for q in null_positions(data):
        try:
            was_null = lookup(base, q) is None
        except (KeyError, IndexError, TypeError):
            was_null = False
        if was_null and not is_prefix(q, p):
            continue
        # a new null: explained by an error at/under it, or a read of the injected garbage (descendant of p)
        if not (any(is_prefix(q, ep) for ep in epaths) or (is_prefix(p, q) and q != p) or (q == p and value is None)):
            observe("unexplained null", q)
            return False
    if do_json:
        with NoTracing():
            try:
                json.dumps(resp, allow_nan=False)
            except Exception as e:
                observe("not JSON-serialisable", repr(e))
                return False
    return True


SH = [{"doc": d, "bits": b} for d in DOCS for b in (0, 7)]
NCH = 6
SH_CAT = [{"doc": d, "bits": b, "chunk": c} for d in DOCS for b in (0, 7) for c in range(NCH)]
CHUNK = (len(CATALOGUE) + NCH - 1) // NCH


@obligation(tier="quick", timeout=240, shards=SH_CAT,
            samples=[{"k": 2, "idx": 0}, {"k": 5, "idx": 13}, {"k": 0, "idx": 28}],
            selectors=["k: field instance receiving the value", "idx: catalogue entry (65 adversarial values)", "shard: document, nullability layout"],
            bounds="catalogue x every field instance", 
            note="adversarial catalogue value at every position: no raise, conforms, nulls explained, json.dumps succeeds")
def c03_catalogue(k: int, idx: int) -> bool:
    """
    post: _
    """
    sh = shard()
    doc, b = sh["doc"], sh["bits"]
    pts, ptypes = _P[(doc, b)]
    lo = sh["chunk"] * CHUNK
    k = pick(k, len(pts)); idx = lo + pick(idx, min(CHUNK, len(CATALOGUE) - lo))
    with NoTracing():
        value = CATALOGUE[idx]()
    if ptypes[k] == "My" and idx in NOT_JSON:
        return True
    return verdict(check(doc, b, pts[k], value, True))


@obligation(tier="quick", timeout=240, shards=SH,
            samples=[{"k": 2, "tag": 2, "iv": 2**31, "bv": True, "sv": "x"}, {"k": 7, "tag": 3, "iv": 0, "bv": False, "sv": "RED"}],
            symbolic=["iv: int (unbounded)", "bv: bool", "sv: str (all strings; at Int/Float/Boolean positions replaced by the catalogue's numeric strings)"],
            selectors=["k: field instance", "tag: None/bool/int/str"],
            bounds="one symbolic leaf value per request at any field instance",
            note="symbolic None/bool/int/str at every position: no raise, conforms, nulls explained")
def c03_symbolic(k: int, tag: int, iv: int, bv: bool, sv: str) -> bool:
    """
    post: _
    """
    sh = shard()
    doc, b = sh["doc"], sh["bits"]
    pts, ptypes = _P[(doc, b)]
    k = pick(k, len(pts)); tag = pick(tag, 4)
    if tag == 3 and ptypes[k] in ("Int", "Float", "Boolean"):
        return True          # float(<symbolic str>) realises: covered by c03_catalogue's numeric strings and C10
    if tag == 2 and ptypes[k] in ("String", "ID"):
        return True          # str(<symbolic int>) is CPython's int rendering (realises): catalogue ints cover it
    if tag == 2 and ptypes[k] == "Float" and not (-2 ** 1000 < iv < 2 ** 1000):
        return True          # CrossHair's float(int) has no OverflowError: ints beyond binary64 range are catalogue entries + C10/E2
    value = None if tag == 0 else (bv if tag == 1 else (iv if tag == 2 else sv))
    return verdict(check(doc, b, pts[k], value, False))


# ---- objects whose fields are completed partly one after another and partly concurrently (public options coerce_parent_concurrently /
# @Resolver(parent_concurrently=...)): an adversarial value at a default-resolved field, placed in the data the default resolver reads ----------
import copy  # noqa: E402
from tartiflette import Resolver as _R  # noqa: E402
ENG_PS = world.make_engine("c03_ps", 0, "plain", coerce_parent_concurrently=False)       # explicit @Resolver fields stay concurrent, default-resolved ones become sequential
for _f in ("Query.nn", "Mid.n", "Leaf.s"):
    _R(_f, schema_name="c03_ov", parent_concurrently=False)(world.universal)
ENG_OV = world.make_engine("c03_ov", 0, "univ")                                           # the reverse mix: a few fields sequential, the rest concurrent
DOC_M = "{ n nn color mids { n leaf { n s b } } mid { n leaves { s n } } a { n id color } }"
AST_M = gqlfront.parse(DOC_M)
for _e in (ENG_PS, ENG_OV):
    env.run(_e.execute(DOC_M, initial_value=DATA))
SITES_M = [("n",), ("nn",), ("color",), ("mid", "n"), ("mids", 0, "leaf", "n"), ("mids", 1, "leaf", "s"), ("mid", "leaves", 0, "s"), ("a", "n"), ("a", "id")]
BASE_M = {}
for _nm, _e in (("ps", ENG_PS), ("ov", ENG_OV)):
    world.reset()
    BASE_M[_nm] = env.run(_e.execute(DOC_M, initial_value=DATA))["data"]


def _unshare(x):
    """copy without keeping aliases (DATA re-uses MID / LEAF at several positions: a value placed at one position must not show at another)"""
    if isinstance(x, dict):
        return {k: _unshare(v) for k, v in x.items()}
    if isinstance(x, list):
        return [_unshare(v) for v in x]
    return x


def _put(data, path, value):
    d = _unshare(data)
    cur = d
    for kk in path[:-1]:
        cur = cur[kk]
    cur[path[-1]] = value
    return d


@obligation(tier="quick", timeout=240, shards=[{"eng": e, "site": s} for e in ("ps", "ov") for s in range(len(SITES_M))],
            samples=[{"tag": 0, "iv": 0, "bv": True, "sv": "x"}, {"tag": 2, "iv": 2 ** 31, "bv": False, "sv": ""}, {"tag": 4, "iv": 1, "bv": False, "sv": "z"}],
            symbolic=["iv: int (unbounded)", "bv: bool", "sv: str"],
            selectors=["tag: None / bool / int / str / a non-numeric object", "shard: engine (sequential default-resolved + concurrent explicit fields, or the reverse), position of the value"],
            bounds="9 positions x 2 mixed sequential/concurrent engines",
            note="an adversarial value under an object whose fields complete partly sequentially and partly concurrently: no raise, conforms (every value under its own response key), nulls explained")
def c03_mixed(tag: int, iv: int, bv: bool, sv: str) -> bool:
    """
    post: _
    """
    sh = shard()
    eng = ENG_PS if sh["eng"] == "ps" else ENG_OV
    p = SITES_M[sh["site"]]
    tag = pick(tag, 5)
    leafname = p[-1]
    numeric = leafname in ("n", "nn")
    if tag == 3 and numeric:
        sv = "not-a-number"           # float(<symbolic str>) realises: one representative
    if tag == 2 and not numeric:
        iv = 7 if iv > 0 else -2 ** 40
    # (an unhashable object at an enum position makes the engine's error message quote CPython's "unhashable type: 'dict'", which CrossHair's dict model words
    #  differently: message wording is not the subject here, a hashable non-member object is used at enum positions)
    value = None if tag == 0 else (bv if tag == 1 else (iv if tag == 2 else (sv if tag == 3 else ({"x": 1} if leafname != "color" else ("x", 1)))))
    data = _put(DATA, p, value)
    world.reset()
    ok, resp = safe(lambda: env.run(eng.execute(DOC_M, initial_value=data)))
    observe(resp)
    if not ok or not isinstance(resp, dict) or "data" not in resp:
        return verdict(False)
    out = resp["data"]
    op = AST_M["definitions"][0]
    if not conforms(MODELS[0], AST_M, op, {}, out):
        observe("does not conform")
        return verdict(False)
    errs = resp.get("errors")
    if errs is not None and (not isinstance(errs, list) or not errs):
        return verdict(False)
    epaths = [tuple(e["path"]) for e in errs or [] if isinstance(e.get("path"), list)]
    if len(epaths) != len(errs or []):
        return verdict(False)
    for ep in epaths:
        if not is_prefix(p, ep) and not is_prefix(ep, p):
            observe("error not attributable to the value", ep)
            return verdict(False)
    base = BASE_M[sh["eng"]]
    for q in null_positions(out):
        try:
            was_null = lookup(base, q) is None
        except (KeyError, IndexError, TypeError):
            was_null = False
        if was_null and not is_prefix(q, p):
            continue
        if not (any(is_prefix(q, ep) for ep in epaths) or (q == p and value is None)):
            observe("unexplained null", q)
            return verdict(False)
    # every other position keeps the value it has without the adversarial input
    for q in SITES_M:
        if q != p and not any(is_prefix(n_, q) for n_ in null_positions(out)):
            if lookup(out, q) != lookup(base, q):
                observe("value moved", q)
                return verdict(False)
    return verdict(True)
