"""C10 — built-in scalars obey their coercion laws.  E2 (Python AST -> SMT on the current source of the scalar kernels,
all integers / all binary64 floats) + E1 (echo through the real engine).  (DESIGN §4 C10)"""
import time, json, math, struct
from typing import Optional
from vf import env
from vf.env import pick, pickb, verdict, observe, safe, build, DictCache
from vf.ob import obligation, shard

META = {
    "bounds": "E2: Int/Float/Boolean/ID/String coerce_input, coerce_output, parse_literal translated from the current source per input kind; values: ALL python ints "
              "(z3 Int), ALL binary64 floats (z3 FP 11 53), bool, None, opaque str; int/float literal TEXT abstracted as int(text)=n / float(text)=f. "
              "E1: echo queries through Engine.execute for int/bool/None/str values.",
    "outside": "parsing of numeric text (float('1e3'), int('12')) and str(int) rendering are CPython's and are abstracted; numeric STRINGS as resolver output "
               "for Int/Float (catalogue in C03); Date/Time/DateTime: a finite catalogue of whole-second naive values (strptime/isoformat are C-level and realise symbolic text); fractional seconds and time zones are not covered",
    "explanation": "E2 obligations are SMT queries guards ∧ ¬property over the translated kernels: unsat = holds for every value of the kind; sat = model replayed on the real function.",
    "assumptions": ["int(text) == n and float(text) == f abstract the literal text (float(text) may be ±inf for texts like 1e999, never NaN)"],
}

# ======================================================================================================================
# E2
# ======================================================================================================================
I32_MIN, I32_MAX = -2 ** 31, 2 ** 31 - 1


def _e2_setup():
    import z3
    from vf import py2smt
    from vf.py2smt import SVal, F64, translate
    from tartiflette.scalar.builtins.int import ScalarInt
    from tartiflette.scalar.builtins.float import ScalarFloat
    from tartiflette.scalar.builtins.boolean import ScalarBoolean
    from tartiflette.scalar.builtins.id import ScalarID
    from tartiflette.scalar.builtins.string import ScalarString
    return z3, py2smt, SVal, F64, translate, {"Int": ScalarInt, "Float": ScalarFloat, "Boolean": ScalarBoolean, "ID": ScalarID, "String": ScalarString}


def _fp_to_py(z3, model, f):
    v = model.eval(f, model_completion=True)
    bv = model.eval(z3.fpToIEEEBV(f), model_completion=True).as_long()
    return struct.unpack(">d", struct.pack(">Q", bv))[0]


def e2_obligations():
    """-> list of dicts {name, fn, kind, check(outs, var) -> list of (label, [z3 formulas])} evaluated by run_e2"""
    z3, py2smt, SVal, F64, translate, S = _e2_setup()
    v = z3.Int("v"); f = z3.FP("f", F64); b = z3.Bool("b"); ne = z3.Bool("nonempty")
    fin = lambda x: z3.And(z3.Not(z3.fpIsNaN(x)), z3.Not(z3.fpIsInf(x)))
    inrange = z3.And(v >= I32_MIN, v <= I32_MAX)
    k64 = z3.fpToSBV(z3.RTZ(), f, z3.BitVecSort(64))
    f_integral_32 = z3.And(fin(f), z3.fpLT(f, z3.FPVal(2.0 ** 62, F64)), z3.fpGT(f, z3.FPVal(-2.0 ** 62, F64)),
                           z3.fpEQ(z3.fpSignedToFP(z3.RNE(), k64, F64), f), k64 >= I32_MIN, k64 <= I32_MAX)
    kint = z3.BV2Int(k64, is_signed=True)
    STR = SVal("str", ("s", ne))
    VALS = {"int": (SVal("int", v), v), "float": (SVal("float", f), f), "bool": (SVal("bool", b), b), "none": (py2smt.NONE, None), "str": (STR, None)}

    def acc(outs):
        return z3.Or([g for g, r in outs if r[0] == "ret" and r[1].kind != "undefined"] or [z3.BoolVal(False)])

    def rets(outs):
        return [(g, r[1]) for g, r in outs if r[0] == "ret" and r[1].kind != "undefined"]

    def wrong_kind(outs, kinds):
        return z3.Or([g for g, r in rets(outs) if r.kind not in kinds] or [z3.BoolVal(False)])

    def result_ne(outs, kind, term, eq=None):
        alts = []
        for g, r in rets(outs):
            if r.kind != kind:
                continue
            alts.append(z3.And(g, z3.Not(eq(r.t, term)) if eq else r.t != term))
        return z3.Or(alts or [z3.BoolVal(False)])

    obs = []

    def ob(name, scalar, meth, kind, queries, node=None):
        obs.append({"name": name, "scalar": scalar, "meth": meth, "kind": kind, "queries": queries, "node": node})

    # ---- Int
    ob("Int.coerce_input/int", "Int", "coerce_input", "int", lambda o: [("accepted <=> -2^31<=v<=2^31-1", [acc(o) != inrange]), ("result is an int", [wrong_kind(o, ("int",))]), ("result == v", [result_ne(o, "int", v)])])
    ob("Int.coerce_input/float", "Int", "coerce_input", "float", lambda o: [("accepted => integral and within 32 bits", [acc(o), z3.Not(f_integral_32)]), ("result is an int", [wrong_kind(o, ("int",))]), ("result == the integer v denotes", [f_integral_32, result_ne(o, "int", kint)])])
    for kd in ("bool", "str", "none"):
        ob("Int.coerce_input/%s refused" % kd, "Int", "coerce_input", kd, lambda o: [("refused", [acc(o)])])
    ob("Int.coerce_output/int", "Int", "coerce_output", "int", lambda o: [("accepted <=> in range", [acc(o) != inrange]), ("result is an int", [wrong_kind(o, ("int",))]), ("result == v (never wrapped/truncated)", [result_ne(o, "int", v)])])
    ob("Int.coerce_output/float", "Int", "coerce_output", "float", lambda o: [("accepted => integral and within 32 bits (never truncated)", [acc(o), z3.Not(f_integral_32)]), ("result is an int", [wrong_kind(o, ("int",))]), ("result == the integer v denotes", [f_integral_32, result_ne(o, "int", kint)])])
    ob("Int.coerce_output/bool", "Int", "coerce_output", "bool", lambda o: [("result is 0/1 int", [wrong_kind(o, ("int",))]), ("result == int(b)", [result_ne(o, "int", z3.If(b, z3.IntVal(1), z3.IntVal(0)))])])
    ob("Int.coerce_output/none refused", "Int", "coerce_output", "none", lambda o: [("refused", [acc(o)])])
    # ---- Float
    ob("Float.coerce_input/float", "Float", "coerce_input", "float", lambda o: [("accepted <=> finite", [acc(o) != fin(f)]), ("result is a float", [wrong_kind(o, ("float",))]), ("result == v", [fin(f), result_ne(o, "float", f, lambda a, c: z3.fpEQ(a, c))])])
    ob("Float.coerce_input/int", "Float", "coerce_input", "int", lambda o: [("result is a finite float", [z3.Or([z3.And(g, z3.Not(fin(r.t))) for g, r in rets(o) if r.kind == "float"] or [z3.BoolVal(False)])]), ("result is a float", [wrong_kind(o, ("float",))]),
                                                                       ("accepted for every 32-bit int", [inrange, z3.Not(acc(o))]), ("result == float(v)", [result_ne(o, "float", py2smt.int_to_fp(v), lambda a, c: z3.fpEQ(a, c))])])
    for kd in ("bool", "str", "none"):
        ob("Float.coerce_input/%s refused" % kd, "Float", "coerce_input", kd, lambda o: [("refused", [acc(o)])])
    ob("Float.coerce_output/float", "Float", "coerce_output", "float", lambda o: [("accepted <=> finite", [acc(o) != fin(f)]), ("result is a float", [wrong_kind(o, ("float",))]), ("result == v", [fin(f), result_ne(o, "float", f, lambda a, c: z3.fpEQ(a, c))])])
    ob("Float.coerce_output/int", "Float", "coerce_output", "int", lambda o: [("result is a finite float", [z3.Or([z3.And(g, z3.Not(fin(r.t))) for g, r in rets(o) if r.kind == "float"] or [z3.BoolVal(False)])]), ("result is a float", [wrong_kind(o, ("float",))]),
                                                                         ("result == float(v)", [result_ne(o, "float", py2smt.int_to_fp(v), lambda a, c: z3.fpEQ(a, c))])])
    ob("Float.coerce_output/bool", "Float", "coerce_output", "bool", lambda o: [("result is a finite float", [wrong_kind(o, ("float",))])])
    ob("Float.coerce_output/none refused", "Float", "coerce_output", "none", lambda o: [("refused", [acc(o)])])
    # ---- Boolean
    ob("Boolean.coerce_input/bool", "Boolean", "coerce_input", "bool", lambda o: [("accepted", [z3.Not(acc(o))]), ("result == b", [result_ne(o, "bool", b)]), ("result is a bool", [wrong_kind(o, ("bool",))])])
    for kd in ("int", "float", "str", "none"):
        ob("Boolean.coerce_input/%s refused" % kd, "Boolean", "coerce_input", kd, lambda o: [("refused", [acc(o)])])
    ob("Boolean.coerce_output/bool", "Boolean", "coerce_output", "bool", lambda o: [("accepted", [z3.Not(acc(o))]), ("result == b", [result_ne(o, "bool", b)])])
    ob("Boolean.coerce_output/int", "Boolean", "coerce_output", "int", lambda o: [("result is a bool", [wrong_kind(o, ("bool",))]), ("result == (v != 0)", [result_ne(o, "bool", v != 0)])])
    ob("Boolean.coerce_output/float", "Boolean", "coerce_output", "float", lambda o: [("result is a bool", [wrong_kind(o, ("bool",))]), ("NaN/inf refused", [z3.Not(fin(f)), acc(o)])])
    # ---- ID / String
    ob("ID.coerce_input/str", "ID", "coerce_input", "str", lambda o: [("accepted", [z3.Not(acc(o))]), ("result is the same text", [wrong_kind(o, ("str",))])])
    ob("ID.coerce_input/int", "ID", "coerce_input", "int", lambda o: [("result is text: the decimal rendering of v", [z3.Or([g for g, r in rets(o) if r.kind != "strofint"] + [z3.And(g, r.t != v) for g, r in rets(o) if r.kind == "strofint"] or [z3.BoolVal(False)])]), ("accepted", [z3.Not(acc(o))])])
    ob("ID.coerce_input/bool refused", "ID", "coerce_input", "bool", lambda o: [("refused", [acc(o)])])
    ob("ID.coerce_input/none refused", "ID", "coerce_input", "none", lambda o: [("refused", [acc(o)])])
    ob("ID.coerce_output/str", "ID", "coerce_output", "str", lambda o: [("accepted", [z3.Not(acc(o))]), ("result is the same text", [wrong_kind(o, ("str",))])])
    ob("ID.coerce_output/int", "ID", "coerce_output", "int", lambda o: [("result is text: the decimal rendering of v", [z3.Or([g for g, r in rets(o) if r.kind != "strofint"] + [z3.And(g, r.t != v) for g, r in rets(o) if r.kind == "strofint"] or [z3.BoolVal(False)])])])
    ob("ID.coerce_output/bool refused", "ID", "coerce_output", "bool", lambda o: [("refused", [acc(o)])])
    ob("String.coerce_input/str", "String", "coerce_input", "str", lambda o: [("accepted", [z3.Not(acc(o))]), ("result is the same text", [wrong_kind(o, ("str",))])])
    for kd in ("int", "float", "bool", "none"):
        ob("String.coerce_input/%s refused" % kd, "String", "coerce_input", kd, lambda o: [("refused", [acc(o)])])
    ob("String.coerce_output/str", "String", "coerce_output", "str", lambda o: [("accepted", [z3.Not(acc(o))]), ("result is the same text", [wrong_kind(o, ("str",))])])
    # ---- literals (text abstracted): literal of the natural kind == variable carrying the same value
    nodeI = SVal("node:IntValueNode", {"value": SVal("int", v)})
    nodeF = SVal("node:FloatValueNode", {"value": SVal("float", f)})
    nodeB = SVal("node:BooleanValueNode", {"value": SVal("bool", b)})
    nodeS = SVal("node:StringValueNode", {"value": STR})
    ob("Int.parse_literal(IntValue n) == coerce_input(n)", "Int", "parse_literal", "lit-int", lambda o: [("accepted <=> in range", [acc(o) != inrange]), ("result == n", [result_ne(o, "int", v)]), ("result is an int", [wrong_kind(o, ("int",))])], node=nodeI)
    for nd, nm in ((nodeF, "FloatValue"), (nodeB, "BooleanValue"), (nodeS, "StringValue")):
        ob("Int.parse_literal(%s) refused" % nm, "Int", "parse_literal", "lit", lambda o: [("refused", [acc(o)])], node=nd)
    ob("Float.parse_literal(FloatValue f): finite result", "Float", "parse_literal", "lit-float", lambda o: [("accepted => finite (text such as 1e999 denotes inf)", [z3.Not(z3.fpIsNaN(f)), z3.Or([z3.And(g, z3.Not(fin(r.t))) for g, r in rets(o) if r.kind == "float"] or [z3.BoolVal(False)])]),
                                                                                                        ("result == f", [fin(f), result_ne(o, "float", f, lambda a, c: z3.fpEQ(a, c))]), ("result is a float", [wrong_kind(o, ("float",))])], node=nodeF)
    ob("Float.parse_literal(IntValue n) == coerce_input(n)", "Float", "parse_literal", "lit-int", lambda o: [("result == float(n)", [result_ne(o, "float", py2smt.int_to_fp(v), lambda a, c: z3.fpEQ(a, c))]), ("result is a finite float", [wrong_kind(o, ("float",))]),
                                                                                                          ("accepted for every 32-bit int", [inrange, z3.Not(acc(o))])], node=nodeI)
    for nd, nm in ((nodeB, "BooleanValue"), (nodeS, "StringValue")):
        ob("Float.parse_literal(%s) refused" % nm, "Float", "parse_literal", "lit", lambda o: [("refused", [acc(o)])], node=nd)
    ob("Boolean.parse_literal(BooleanValue b) == b", "Boolean", "parse_literal", "lit-bool", lambda o: [("accepted", [z3.Not(acc(o))]), ("result == b", [result_ne(o, "bool", b)])], node=nodeB)
    for nd, nm in ((nodeI, "IntValue"), (nodeF, "FloatValue"), (nodeS, "StringValue")):
        ob("Boolean.parse_literal(%s) refused" % nm, "Boolean", "parse_literal", "lit", lambda o: [("refused", [acc(o)])], node=nd)
    ob("String.parse_literal(StringValue s) == s", "String", "parse_literal", "lit-str", lambda o: [("accepted", [z3.Not(acc(o))]), ("same text", [wrong_kind(o, ("str",))])], node=nodeS)
    for nd, nm in ((nodeI, "IntValue"), (nodeF, "FloatValue"), (nodeB, "BooleanValue")):
        ob("String.parse_literal(%s) refused" % nm, "String", "parse_literal", "lit", lambda o: [("refused", [acc(o)])], node=nd)
    ob("ID.parse_literal(StringValue s) == s", "ID", "parse_literal", "lit-str", lambda o: [("accepted", [z3.Not(acc(o))]), ("same text", [wrong_kind(o, ("str",))])], node=nodeS)
    for nd, nm in ((nodeF, "FloatValue"), (nodeB, "BooleanValue")):
        ob("ID.parse_literal(%s) refused" % nm, "ID", "parse_literal", "lit", lambda o: [("refused", [acc(o)])], node=nd)
    # ---- idempotence: coerce_input(coerce_output(v)) == coerce_output(v)
    obs.append({"name": "idempotence", "idem": True})
    return obs, (z3, py2smt, SVal, F64, translate, S, VALS, v, f, b)


def model_value(z3, model, kind, v, f, b):
    if kind in ("int", "lit-int"):
        return model.eval(v, model_completion=True).as_long()
    if kind in ("float", "lit-float"):
        return _fp_to_py(z3, model, f)
    if kind in ("bool", "lit-bool"):
        return bool(z3.is_true(model.eval(b, model_completion=True)))
    return None


def encode_value(x):
    if isinstance(x, float):
        return {"float": x.hex()}
    return x


def decode_value(x):
    if isinstance(x, dict) and "float" in x:
        return float.fromhex(x["float"])
    return x


def concrete_check(name, value):
    """replay of an E2 model on the real function: does the law `name` really fail for `value`?  True = law holds"""
    from tartiflette.scalar.builtins.int import ScalarInt
    from tartiflette.scalar.builtins.float import ScalarFloat
    from tartiflette.scalar.builtins.boolean import ScalarBoolean
    from tartiflette.scalar.builtins.id import ScalarID
    from tartiflette.scalar.builtins.string import ScalarString
    from tartiflette.constants import UNDEFINED_VALUE
    from tartiflette.language.ast import IntValueNode, FloatValueNode, BooleanValueNode, StringValueNode
    S = {"Int": ScalarInt, "Float": ScalarFloat, "Boolean": ScalarBoolean, "ID": ScalarID, "String": ScalarString}
    head = name.split("/")[0].split("(")[0]
    scalar, meth = head.split(".")[0], head.split(".")[1].split(" ")[0]
    inst = S[scalar]()
    arg = value
    if meth == "parse_literal":
        if isinstance(value, bool):
            arg = BooleanValueNode(value=value, location=None)
        elif isinstance(value, int):
            arg = IntValueNode(value=str(value), location=None)
        elif isinstance(value, float):
            txt = "1e999" if value == math.inf else ("-1e999" if value == -math.inf else repr(value))
            arg = FloatValueNode(value=txt, location=None)
        else:
            arg = StringValueNode(value="s", location=None)
    try:
        r = getattr(inst, meth)(arg)
        accepted = r is not UNDEFINED_VALUE
    except Exception as e:
        r = e; accepted = False
    observe(name, value, "->", r)
    # the generic, kind-independent laws of the statement
    if accepted:
        if scalar == "Int":
            if isinstance(r, bool) or not isinstance(r, int) or not (I32_MIN <= r <= I32_MAX):
                return False
            if isinstance(value, (int, float)) and not isinstance(value, bool) and r != value:
                return False
            if isinstance(value, bool) and meth != "coerce_output":
                return False
        if scalar == "Float":
            if not isinstance(r, float) or not math.isfinite(r):
                return False
            if isinstance(value, bool) and meth != "coerce_output":
                return False
            if isinstance(value, (int, float)) and not isinstance(value, bool) and r != float(value):
                return False
        if scalar == "Boolean":
            if not isinstance(r, bool):
                return False
            if meth != "coerce_output" and not isinstance(value, bool):
                return False
        if scalar in ("ID", "String"):
            if not isinstance(r, str):
                return False
            if isinstance(value, bool) and scalar == "ID":
                return False
            if scalar == "String" and meth != "coerce_output" and not isinstance(value, str) and not isinstance(arg, StringValueNode):
                return False
    else:
        if scalar == "Int" and isinstance(value, int) and not isinstance(value, bool) and I32_MIN <= value <= I32_MAX:
            return False
        if scalar == "Float" and isinstance(value, float) and math.isfinite(value):
            return False
        if scalar == "Float" and isinstance(value, int) and not isinstance(value, bool) and I32_MIN <= value <= I32_MAX:
            return False
        if scalar == "Boolean" and isinstance(value, bool):
            return False
    return True


BOUNDARY = [0, 1, -1, 2 ** 31, -2 ** 31, 2 ** 31 - 1, -2 ** 31 - 1, 2 ** 53, 2 ** 53 + 1, -2 ** 53 - 1, 10 ** 308, 2 ** 1024 - 2 ** 970 - 1, 2 ** 1024 - 2 ** 970, 10 ** 400,
            0.0, -0.0, 5e-324, 1.5, -1.5, 3.0, 2.0 ** 31, -2.0 ** 31, 2.0 ** 31 - 1, 2.0 ** 53 + 2, 1e308, math.inf, -math.inf, math.nan, True, False]

# integers at which an undecided integer query is asked again as a ground query (see run_e2)
INT_WITNESSES = [x for x in BOUNDARY if isinstance(x, int) and not isinstance(x, bool)] + [2 ** 53 - 1, -2 ** 53, 2 ** 53 + 3, 2 ** 54 + 2, 2 ** 63, 2 ** 63 + 1, -2 ** 63 - 1, 2 ** 64 + 1,
                                                                                         10 ** 16 + 1, 10 ** 22, 10 ** 23, 10 ** 23 + 1, -10 ** 23 - 1, 123456789012345678901234567890]

def validate_translation(z3, py2smt, SVal, F64, translate, fn, value):
    """the encoding evaluated on a concrete value must agree with the real function (accept/refuse and result)"""
    from tartiflette.constants import UNDEFINED_VALUE
    if isinstance(value, bool):
        sv = SVal("bool", z3.BoolVal(value))
    elif isinstance(value, int):
        sv = SVal("int", z3.IntVal(value))
    else:
        sv = SVal("float", z3.FPVal(value, F64))
    outs = translate(fn, [sv])
    got = None
    for g, r in outs:
        if z3.is_true(z3.simplify(g)):
            got = r; break
    if got is None:
        s = z3.Solver()
        for g, r in outs:
            s.push(); s.add(g)
            if str(s.check()) == "sat":
                got = r; s.pop(); break
            s.pop()
    try:
        real = fn(None, value)
        real_acc = real is not UNDEFINED_VALUE
    except Exception:
        real = None; real_acc = False
    enc_acc = got is not None and got[0] == "ret" and got[1].kind != "undefined"
    if enc_acc != real_acc:
        return False, (value, "encoding accepts" if enc_acc else "encoding refuses", real)
    if enc_acc and got[1].kind in ("int", "float", "bool"):
        t = z3.simplify(got[1].t)
        if got[1].kind == "int":
            ok = isinstance(real, int) and not isinstance(real, bool) and t.as_long() == real
        elif got[1].kind == "bool":
            ok = isinstance(real, bool) and z3.is_true(t) == real
        else:
            m = z3.Solver(); m.check()
            bv = z3.simplify(z3.fpToIEEEBV(t)).as_long()
            ok = isinstance(real, float) and struct.pack(">d", real) == struct.pack(">Q", bv)
        if not ok:
            return False, (value, "result differs", str(t), real)
    return True, None


def run_e2(tier, evid_dir):
    """-> list of records for the runner"""
    import os
    recs = []
    t0 = time.time()
    try:
        obs, ctx = e2_obligations()
    except Exception as e:
        import traceback
        return [{"obligation": "E2-setup", "state": "ERROR", "verdict": "harness-error", "detail": traceback.format_exc()[-2000:], "paths": 0, "queries": 0, "solver_s": 0, "wall_s": 0, "twin": False, "shard": {}}]
    z3, py2smt, SVal, F64, translate, S, VALS, v, f, b = ctx
    nvalid = 0
    # translator validation on the boundary table (every model found below is replayed as well)
    for sc in ("Int", "Float", "Boolean"):
        for meth in ("coerce_input", "coerce_output"):
            fn = getattr(S[sc], meth)
            for val in BOUNDARY:
                try:
                    ok, why = validate_translation(z3, py2smt, SVal, F64, translate, fn, val)
                except py2smt.Unsupported:
                    continue
                nvalid += 1
                if not ok:
                    recs.append({"obligation": "translator-validation %s.%s" % (sc, meth), "state": "MISMATCH", "verdict": "harness-error", "detail": repr(why), "paths": 0, "queries": 0,
                                 "solver_s": 0, "wall_s": 0, "twin": False, "shard": {}})
    for o in obs:
        if o.get("idem"):
            recs += idempotence(z3, py2smt, SVal, F64, translate, S, v, f, b)
            continue
        t1 = time.time()
        rec = {"obligation": o["name"], "shard": {"engine": "E2"}, "twin": False, "paths": 0, "queries": 0, "solver_s": 0.0, "functions": ["tartiflette.scalar.builtins.%s.Scalar%s.%s" % (o["scalar"].lower(), o["scalar"] if o["scalar"] != "ID" else "ID", o["meth"]), "tartiflette.utils.values.is_integer"]}
        try:
            arg = o["node"] if o["node"] is not None else VALS[o["kind"]][0]
            outs = translate(getattr(S[o["scalar"]], o["meth"]), [arg])
            rec["paths"] = len(outs)
            queries = o["queries"](outs)
        except py2smt.Unsupported as e:
            rec.update(state="UNSUPPORTED", verdict="inconclusive", detail="not encodable: %s" % e, wall_s=round(time.time() - t1, 3))
            recs.append(rec); continue
        state = "unsat"; detail = []
        for label, fmls in queries:
            s = z3.Solver(); s.set("timeout", 120000)
            s.add(*fmls)
            ts = time.time(); r = str(s.check()); rec["solver_s"] += time.time() - ts; rec["queries"] += 1
            if r == "sat":
                val = model_value(z3, s.model(), o["kind"], v, f, b)
                state = "sat"; detail.append((label, val)); rec["args"] = {"name": o["name"], "value": encode_value(val), "law": label}
                break
            if r != "unsat":
                # the general query was not decided (typically int<->binary64 conversions in one formula): ask it again with the integer pinned to each
                # entry of the boundary table — a ground query, decided by evaluation. sat = a counterexample (replayed like any other); unsat on the
                # table changes nothing: the obligation stays inconclusive.
                hit = None
                if o["kind"] in ("int", "lit-int"):
                    for c in INT_WITNESSES:
                        s2 = z3.Solver(); s2.set("timeout", 10000); s2.add(*fmls); s2.add(v == c)
                        ts = time.time(); r2 = str(s2.check()); rec["solver_s"] += time.time() - ts; rec["queries"] += 1
                        if r2 == "sat":
                            hit = c; break
                if hit is not None:
                    state = "sat"; detail.append((label, hit)); rec["args"] = {"name": o["name"], "value": hit, "law": label}
                    break
                state = "unknown"; detail.append((label, r))
        rec["state"] = state; rec["solver_s"] = round(rec["solver_s"], 3); rec["wall_s"] = round(time.time() - t1, 3)
        rec["laws"] = [l for l, _ in queries]
        if state == "unsat":
            rec["verdict"] = "discharged"
        elif state == "unknown":
            rec["verdict"] = "inconclusive"; rec["detail"] = repr(detail)
        else:
            rec["verdict"] = "cex"; rec["detail"] = repr(detail)
        recs.append(rec)
    for r in recs:
        r.setdefault("trace_equiv_samples", 0)
    if recs:
        recs[0]["trace_equiv_samples"] = nvalid
    return recs


def idempotence(z3, py2smt, SVal, F64, translate, S, v, f, b):
    recs = []
    fin = lambda x: z3.And(z3.Not(z3.fpIsNaN(x)), z3.Not(z3.fpIsInf(x)))
    for sc, kinds in (("Int", ["int", "float", "bool"]), ("Float", ["int", "float"]), ("Boolean", ["bool", "int"]), ("ID", ["int"])):
        for kd in kinds:
            t1 = time.time()
            name = "%s: coerce_input(coerce_output(v)) == coerce_output(v) / %s" % (sc, kd)
            rec = {"obligation": name, "shard": {"engine": "E2"}, "twin": False, "paths": 0, "queries": 0, "solver_s": 0.0}
            sv = {"int": SVal("int", v), "float": SVal("float", f), "bool": SVal("bool", b)}[kd]
            try:
                outs = translate(getattr(S[sc], "coerce_output"), [sv])
                bad = []
                for g, r in outs:
                    if r[0] != "ret":
                        continue
                    res = r[1]
                    if res.kind == "strofint":
                        res2 = SVal("str", ("s", z3.BoolVal(True)))
                    else:
                        res2 = res
                    outs2 = translate(getattr(S[sc], "coerce_input"), [res2])
                    rec["paths"] += len(outs2)
                    acc2 = z3.Or([g2 for g2, r2 in outs2 if r2[0] == "ret"] or [z3.BoolVal(False)])
                    bad.append(z3.And(g, z3.Not(acc2)))
                    for g2, r2 in outs2:
                        if r2[0] != "ret":
                            continue
                        if r2[1].kind != res2.kind:
                            bad.append(z3.And(g, g2))
                        elif res2.kind == "float":
                            bad.append(z3.And(g, g2, z3.Not(z3.fpEQ(r2[1].t, res2.t))))
                        elif res2.kind in ("int", "bool"):
                            bad.append(z3.And(g, g2, r2[1].t != res2.t))
                s = z3.Solver(); s.set("timeout", 120000); s.add(z3.Or(bad or [z3.BoolVal(False)]))
                ts = time.time(); r = str(s.check()); rec["solver_s"] = round(time.time() - ts, 3); rec["queries"] = 1
                if r == "unsat":
                    rec.update(state="unsat", verdict="discharged")
                elif r == "sat":
                    val = model_value(z3, s.model(), kd, v, f, b)
                    rec.update(state="sat", verdict="cex", args={"name": name, "value": encode_value(val), "law": "idempotence"}, detail=repr(val))
                else:
                    rec.update(state="unknown", verdict="inconclusive", detail=r)
            except py2smt.Unsupported as e:
                rec.update(state="UNSUPPORTED", verdict="inconclusive", detail="not encodable: %s" % e)
            rec["wall_s"] = round(time.time() - t1, 3)
            recs.append(rec)
    return recs


def idem_concrete(name, value):
    from tartiflette.scalar.builtins.int import ScalarInt
    from tartiflette.scalar.builtins.float import ScalarFloat
    from tartiflette.scalar.builtins.boolean import ScalarBoolean
    from tartiflette.scalar.builtins.id import ScalarID
    S = {"Int": ScalarInt, "Float": ScalarFloat, "Boolean": ScalarBoolean, "ID": ScalarID}
    inst = S[name.split(":")[0]]()
    try:
        out = inst.coerce_output(value)
    except Exception:
        return True
    try:
        back = inst.coerce_input(out)
    except Exception as e:
        observe("coerce_input(%r) raised %r" % (out, e))
        return False
    observe(value, out, back)
    return type(back) is type(out) and back == out


@obligation(tier="replay", timeout=10, samples=[])
def e2_replay(name: str, value: object, law: str) -> bool:
    """
    post: _
    """
    value = decode_value(value)
    if law == "idempotence":
        return idem_concrete(name, value)
    return concrete_check(name, value)


# ======================================================================================================================
# E1: the kernels inside the engine (input/literal/output coercer wrappers), echo through Engine.execute
# ======================================================================================================================
from tartiflette import Resolver  # noqa: E402
from vf import gqlfront  # noqa: E402

NAME = "c10"
SDL = """
type Query { echoInt(v: Int): Int echoFloat(v: Float): Float echoID(v: ID): ID echoBool(v: Boolean): Boolean echoStr(v: String): String
             outInt: Int outFloat: Float outID: ID outBool: Boolean outStr: String }
"""
SEEN = []
OUT = {}


async def _echo(parent, args, ctx, info):
    SEEN.append(args)
    return args.get("v")


async def _out(parent, args, ctx, info):
    return OUT["v"]

for _f in ("echoInt", "echoFloat", "echoID", "echoBool", "echoStr"):
    Resolver("Query." + _f, schema_name=NAME)(_echo)
for _f in ("outInt", "outFloat", "outID", "outBool", "outStr"):
    Resolver("Query." + _f, schema_name=NAME)(_out)
ENG = build(SDL, NAME, query_cache_decorator=DictCache())
for _f in ("echoInt", "echoFloat"):
    Resolver("Query." + _f, schema_name=NAME + "_nc")(_echo)
ENG_NC = build(SDL, NAME + "_nc", query_cache_decorator=None)      # documents whose literal is symbolic must not be cached across paths
QV = {t: "query Q($v: %s) { echo%s(v: $v) }" % (t, n) for t, n in (("Int", "Int"), ("Float", "Float"), ("ID", "ID"), ("Boolean", "Bool"), ("String", "Str"))}
QL = {t: "{ echo%s(v: 1000001) }" % n for t, n in (("Int", "Int"), ("Float", "Float"))}
QO = {t: "{ out%s }" % n for t, n in (("Int", "Int"), ("Float", "Float"), ("ID", "ID"), ("Boolean", "Bool"), ("String", "Str"))}
ASTL = {t: gqlfront.parse(q) for t, q in QL.items()}
for _q in list(QV.values()) + list(QO.values()):
    OUT["v"] = None
    env.run(ENG.execute(_q, variables={}))


def subst_int(node, n):
    if isinstance(node, list):
        return [subst_int(x, n) for x in node]
    if not isinstance(node, dict):
        return node
    if node.get("kind") == "IntValue" and node["value"] == "1000001":
        return dict(node, value=n)
    return {k: subst_int(x, n) for k, x in node.items()}


@obligation(tier="quick", timeout=120, shards=[{"t": t} for t in ("Int", "Float", "ID", "Boolean", "String")],
            samples=[{"tag": 1, "n": 5, "b": True, "s": "x"}, {"tag": 1, "n": 2 ** 31, "b": False, "s": ""}, {"tag": 1, "n": -2 ** 31, "b": False, "s": "0"}, {"tag": 1, "n": 2 ** 31 - 1, "b": True, "s": " "}, {"tag": 1, "n": 0, "b": False, "s": "x"}, {"tag": 1, "n": -2 ** 31 - 1, "b": False, "s": "x"}],
            symbolic=["n: int (unbounded)", "b: bool", "s: str (all strings)"], selectors=["tag: None/int/bool/str", "shard: scalar"],
            bounds="one variable value per request",
            note="variable -> input coercion -> resolver -> output coercion through the real engine: accepted exactly for the value kinds the scalar allows; the echoed value is the same value; output fed back as input is accepted unchanged (idempotence)")
def c10_echo(tag: int, n: int, b: bool, s: str) -> bool:
    """
    post: _
    """
    t = shard()["t"]
    tag = pick(tag, 4)
    if t in ("ID", "String") and tag == 1:
        n = 12345678901234567890 if n > 0 else -7          # str(<symbolic int>) realises: two concrete representatives
    if t == "Float" and tag == 1:
        n = 3 if n > 0 else -2 ** 40      # math.isfinite(<symbolic>) realises: all ints/floats for Float are E2's; two representatives here
    val = None if tag == 0 else (n if tag == 1 else (b if tag == 2 else s))
    del SEEN[:]
    ok, r = safe(lambda: env.run(ENG.execute(QV[t], variables={"v": val})))
    observe(r, list(SEEN))
    if not ok:
        return verdict(False)
    allowed = {"Int": tag == 1 and I32_MIN <= n <= I32_MAX, "Float": tag == 1, "ID": tag in (1, 3), "Boolean": tag == 2, "String": tag == 3}[t] or tag == 0
    if not allowed:
        return verdict(r.get("data") is None and bool(r.get("errors")) and not SEEN)
    if r.get("errors") or len(SEEN) != 1:
        return verdict(False)
    got = r["data"]["echo" + {"Boolean": "Bool", "String": "Str"}.get(t, t)]
    seen = SEEN[0].get("v")
    if tag == 0:
        return verdict(got is None and seen is None and "v" in SEEN[0])
    exp = {"Int": val, "Float": val, "ID": str(val) if tag == 1 else val, "Boolean": val, "String": val}[t]
    if t == "Float":
        if not (isinstance(seen, float) and isinstance(got, float)):
            return verdict(False)
    elif type(got) is not type(exp) and not (t in ("ID", "String")):
        return verdict(False)
    if not (got == exp and seen == exp):
        return verdict(False)
    # idempotence through the engine: the produced result is accepted unchanged as input
    if t in ("ID", "String") and tag == 1:
        return verdict(True)
    del SEEN[:]
    ok, r2 = safe(lambda: env.run(ENG.execute(QV[t], variables={"v": got})))
    return verdict(ok and not r2.get("errors") and r2["data"] == r["data"])


@obligation(tier="quick", timeout=120, shards=[{"t": t} for t in ("Int", "Float")],
            samples=[{"n": 5}, {"n": 2 ** 31}, {"n": -2 ** 31}, {"n": 2 ** 31 - 1}, {"n": 0}, {"n": -1}, {"n": -2 ** 31 - 1}, {"n": -10 ** 9}, {"n": 10 ** 9}, {"n": -999999999}],
            symbolic=["n: int (unbounded) — value of the int literal (text abstracted as int(text)=n)"], bounds="one literal per request",
            note="a literal and a variable carrying the same value reach the resolver as the same value, or are both refused")
def c10_literal_eq_variable(n: int) -> bool:
    """
    post: _
    """
    t = shard()["t"]
    if t == "Float":
        n = pick(n, 5) * 1000003 - 2000006      # isfinite(<symbolic>) realises: five representatives (E2 covers all ints)
    ast = subst_int(ASTL[t], n)
    del SEEN[:]
    old = env.FFI._parse_to_json_ast
    env.FFI._parse_to_json_ast = lambda q: ast
    try:
        ok1, r1 = safe(lambda: env.run(ENG_NC.execute(QL[t])))
    finally:
        env.FFI._parse_to_json_ast = old
    s1 = list(SEEN); del SEEN[:]
    ok2, r2 = safe(lambda: env.run(ENG.execute(QV[t], variables={"v": n})))
    s2 = list(SEEN)
    observe(r1, s1, r2, s2)
    if not ok1 or not ok2:
        return verdict(False)
    if bool(r1.get("errors")) != bool(r2.get("errors")):
        return verdict(False)
    if r1.get("errors"):
        return verdict(not s1 and not s2)
    return verdict(len(s1) == 1 and len(s2) == 1 and s1[0].get("v") == s2[0].get("v") and type(s1[0].get("v")) is type(s2[0].get("v")) and r1["data"] == r2["data"])


@obligation(tier="quick", timeout=120, shards=[{"t": t} for t in ("Int", "Float", "ID", "Boolean", "String")],
            samples=[{"tag": 1, "n": 5, "b": True, "s": "x"}, {"tag": 2, "n": 0, "b": False, "s": ""}, {"tag": 1, "n": -2 ** 31, "b": True, "s": "x"}, {"tag": 1, "n": 2 ** 31 - 1, "b": True, "s": "x"}, {"tag": 1, "n": 2 ** 31, "b": True, "s": "x"}, {"tag": 1, "n": 0, "b": True, "s": "x"}],
            symbolic=["n: int", "b: bool", "s: str"], selectors=["tag: None/int/bool/str resolver output"], bounds="one resolver output per request",
            note="result coercion through the engine: a non-null result has the scalar's wire type and denotes the same value")
def c10_output(tag: int, n: int, b: bool, s: str) -> bool:
    """
    post: _
    """
    t = shard()["t"]
    tag = pick(tag, 4)
    if tag == 3 and t in ("Int", "Float", "Boolean"):
        return True        # numeric text: float(<symbolic str>) realises — catalogue in C03
    if tag == 1 and t in ("ID", "String"):
        n = 98765432109876543210 if n > 0 else -3
    if t == "Float" and tag == 1:
        n = 7 if n > 0 else -2 ** 40
    OUT["v"] = None if tag == 0 else (n if tag == 1 else (b if tag == 2 else s))
    ok, r = safe(lambda: env.run(ENG.execute(QO[t])))
    observe(OUT["v"], r)
    if not ok:
        return verdict(False)
    got = r["data"]["out" + {"Boolean": "Bool", "String": "Str"}.get(t, t)]
    if got is None:
        return verdict(tag == 0 or bool(r.get("errors")))
    if r.get("errors"):
        return verdict(False)
    v = OUT["v"]
    if t == "Int":
        return verdict(isinstance(got, int) and not isinstance(got, bool) and I32_MIN <= got <= I32_MAX and got == (int(v) if tag == 2 else v) and tag in (1, 2))
    if t == "Float":
        return verdict(isinstance(got, float) and got == v)
    if t == "Boolean":
        return verdict(isinstance(got, bool) and got == (v if tag == 2 else v != 0))
    if t == "ID":
        return verdict(isinstance(got, str) and tag in (1, 3) and got == (str(v) if tag == 1 else v))
    return verdict(isinstance(got, str) and (got == v if tag == 3 else True))


# ======================================================================================================================
# Date / Time / DateTime: a catalogue of well-formed (whole-second, naive) and malformed values through the engine.
# strptime/isoformat are C-level and realise any symbolic text: this part is a finite catalogue, stated as such.
# ======================================================================================================================
DT_SDL = "type Query { d(v: Date): Date t(v: Time): Time dt(v: DateTime): DateTime }"
for _f in ("d", "t", "dt"):
    Resolver("Query." + _f, schema_name="c10_dt")(_echo)
ENG_DT = build(DT_SDL, "c10_dt", query_cache_decorator=None)
GOOD = {"d": ["2020-02-29", "0001-01-01", "9999-12-31", "1999-12-31", "2024-07-04"], "t": ["00:00:00", "23:59:59", "12:30:05", "07:08:09"],
        "dt": ["2020-02-29T00:00:00", "0001-01-01T23:59:59", "9999-12-31T12:00:00", "2021-06-15T07:08:09"]}
BADV = {"d": ["2020-13-01", "2021-02-29", "2020-1-1x", "", "abc", "2020-02-29T00:00:00", 5, True, 1.5], "t": ["24:00:00", "12:60:00", "12:00", "", "noon", 5, False],
        "dt": ["2020-02-30T00:00:00", "2020-02-29", "2020-02-29 00:00:00", "", "x", 7, True]}
TNAME = {"d": "Date", "t": "Time", "dt": "DateTime"}


@obligation(tier="quick", timeout=120, shards=[{"f": f} for f in ("d", "t", "dt")],
            samples=[{"k": 0, "lit": False}, {"k": 6, "lit": True}],
            selectors=["k: catalogue value (well-formed then malformed)", "lit: supplied as a string literal or through a variable"],
            bounds="13-16 values per scalar (catalogue: CPython's strptime/isoformat realise symbolic text)",
            note="well-formed value: accepted, literal == variable, the echoed text equals the input (output(input(s)) == s, idempotent); malformed or non-string: refused / that field fails, nothing delivered")
def c10_dates(k: int, lit: bool) -> bool:
    """
    post: _
    """
    f = shard()["f"]
    good, bad = GOOD[f], BADV[f]
    k = pick(k, len(good) + len(bad)); lit = pickb(lit)
    val = (good + bad)[k]
    is_good = k < len(good)
    del SEEN[:]
    if lit:
        if not isinstance(val, str):
            return True
        q = "{ %s(v: %s) }" % (f, __import__("json").dumps(val))
        ok, r = safe(lambda: env.run(ENG_DT.execute(q)))
    else:
        q = "query Q($v: %s) { %s(v: $v) }" % (TNAME[f], f)
        ok, r = safe(lambda: env.run(ENG_DT.execute(q, variables={"v": val})))
    observe(q, val, r, len(SEEN))        # the delivered values are datetime objects whose repr differs under tracing
    if not ok:
        return verdict(False)
    if is_good:
        return verdict(not r.get("errors") and r["data"] == {f: val} and len(SEEN) == 1)
    return verdict(bool(r.get("errors")) and not SEEN)


# numeric TEXT returned by a resolver for Int/Float (the kernels parse it with CPython's float(): text parsing is not encoded
# in E2, so this direction is a catalogue)
STRS = ["3", "-7", "3.0", "3.5", "1e3", "1e999", "-1e999", "nan", "NaN", "inf", "-Infinity", "abc", "", " ", "2147483647", "2147483648", "-2147483649", "0x10", "1_000", "٣"]


@obligation(tier="quick", timeout=120, shards=[{"t": t} for t in ("Int", "Float")], samples=[{"k": 0}, {"k": 5}],
            selectors=["k: text returned by the resolver (%d entries)" % len(STRS)], bounds="catalogue of numeric / non-numeric texts",
            note="text as resolver output for Int/Float: a non-null result is an in-range int / a finite float denoting the text's value, and feeding it back as input is accepted (idempotence); otherwise null + error")
def c10_output_text(k: int) -> bool:
    """
    post: _
    """
    t = shard()["t"]
    k = pick(k, len(STRS))
    OUT["v"] = STRS[k]
    ok, r = safe(lambda: env.run(ENG.execute(QO[t])))
    observe(STRS[k], r)
    if not ok:
        return verdict(False)
    got = r["data"]["out" + t]
    if got is None:
        return verdict(bool(r.get("errors")))
    if r.get("errors"):
        return verdict(False)
    if t == "Int":
        good = isinstance(got, int) and not isinstance(got, bool) and I32_MIN <= got <= I32_MAX
    else:
        good = isinstance(got, float) and math.isfinite(got)
    if not good:
        return verdict(False)
    try:
        same_value = float(STRS[k]) == got
    except ValueError:
        same_value = False
    ok2, r2 = safe(lambda: env.run(ENG.execute(QV[t], variables={"v": got})))
    return verdict(same_value and ok2 and not r2.get("errors"))


# a sequence of String outputs in one run: each rendering depends on its own value only (True and 1.0, False and 0.0 are ==)
SEQ_VALUES = [True, 1.0, False, 0.0, 1, -0.0, 0, "x", 1.5, True, 2.0]
SEQ_TEXT = ["true", "1.0", "false", "0.0", "1", "-0.0", "0", "x", "1.5", "true", "2.0"]


@obligation(tier="quick", timeout=120, samples=[{"start": 0, "rev": False}, {"start": 3, "rev": True}],
            selectors=["start: rotation of the value sequence", "rev: reversed order"], bounds="11 values that are pairwise == across kinds (bool / int / float), 22 orders",
            note="String result coercion denotes the SAME value whatever was serialised before it in the process (no cross-kind confusion between True/1/1.0, False/0/0.0/-0.0)")
def c10_string_history(start: int, rev: bool) -> bool:
    """
    post: _
    """
    start = pick(start, len(SEQ_VALUES)); rev = pickb(rev)
    order = list(range(len(SEQ_VALUES)))
    order = order[start:] + order[:start]
    if rev:
        order.reverse()
    for i in order:
        OUT["v"] = SEQ_VALUES[i]
        ok, r = safe(lambda: env.run(ENG.execute(QO["String"])))
        observe(SEQ_VALUES[i], r)
        if not ok or r.get("errors") or r["data"]["outStr"] != SEQ_TEXT[i]:
            return verdict(False)
    return verdict(True)


# ---- literal KINDS: which kind of literal each built-in scalar accepts, at an argument and as a variable's default (spec §3.5 input coercion) ----
for _f in ("echoInt", "echoFloat", "echoID", "echoBool", "echoStr"):
    Resolver("Query." + _f, schema_name=NAME + "_k")(_echo)
ENG_K = build(SDL, NAME + "_k", query_cache_decorator=None)
KIND_LITS = {"int": "1000001", "float": "1.5", "string": "\"abc\"", "bool": "true", "enum": "RED"}
KIND_VALUE = {"float": 1.5, "string": "abc", "bool": True}
ACCEPTS = {"Int": ("int",), "Float": ("int", "float"), "String": ("string",), "ID": ("string", "int"), "Boolean": ("bool",)}
KFIELD = {"Int": "echoInt", "Float": "echoFloat", "ID": "echoID", "Boolean": "echoBool", "String": "echoStr"}
KASTS = {}
for _t in ACCEPTS:
    for _k, _lit in KIND_LITS.items():
        KASTS[(_t, _k, 0)] = ("{ %s(v: %s) }" % (KFIELD[_t], _lit),)
        KASTS[(_t, _k, 1)] = ("query Q($x: %s = %s) { %s(v: $x) }" % (_t, _lit, KFIELD[_t]),)
KASTS = {k: (v[0], gqlfront.parse(v[0])) for k, v in KASTS.items()}


@obligation(tier="quick", timeout=120, shards=[{"t": t} for t in ACCEPTS],
            samples=[{"n": 5, "kind": 0, "pos": 0}, {"n": 7, "kind": 2, "pos": 1}, {"n": 2 ** 31, "kind": 0, "pos": 1}, {"n": 0, "kind": 4, "pos": 1}, {"n": -1, "kind": 1, "pos": 1}, {"n": 3, "kind": 3, "pos": 0}],
            symbolic=["n: int (unbounded at Int/Float argument positions; three representatives by range elsewhere) — the value of the Int literal (text abstracted as int(text)=n)"],
            selectors=["kind: Int / Float / String / Boolean / Enum literal", "pos: argument value / default value of a variable that gets no runtime value", "shard: declared scalar"],
            bounds="5 scalars x 5 literal kinds x 2 positions",
            note="a literal is accepted exactly when its KIND is one the scalar's input coercion admits (Int: Int; Float: Int, Float; String: String; ID: String, Int; Boolean: Boolean) and, "
                 "for Int kinds, the value is in range; a refused literal never reaches the resolver — as an argument and as a variable default alike")
def c10_literal_kinds(n: int, kind: int, pos: int) -> bool:
    """
    post: _
    """
    t = shard()["t"]
    kname = ["int", "float", "string", "bool", "enum"][pick(kind, 5)]
    pos = pick(pos, 2)
    text, ast = KASTS[(t, kname, pos)]
    if kname == "int":
        if t == "Float":
            n = pick(n, 5) * 1000003 - 2000006      # as in c10_literal_eq_variable: float(<symbolic int>) predicates realise
        if t in ("ID", "String"):
            n = 12345678901234567890 if n > 0 else -7          # str(<symbolic int>) realises (as in c10_echo): two concrete representatives
        elif pos == 1 or t == "Boolean":
            # a refused default / wrong-kind literal is quoted in the error message (str(<symbolic int>) realises, one path per value): three representatives by range
            n = 5 if -2 ** 31 <= n < 2 ** 31 else (2 ** 31 if n > 0 else -2 ** 31 - 1)
        ast = subst_int(ast, n)
    del SEEN[:]
    old = env.FFI._parse_to_json_ast
    env.FFI._parse_to_json_ast = lambda q: ast
    try:
        ok, r = safe(lambda: env.run(ENG_K.execute(text)))
    finally:
        env.FFI._parse_to_json_ast = old
    seen = list(SEEN)
    observe(text, r, seen)
    if not ok:
        return verdict(False)
    accept = kname in ACCEPTS[t]
    if accept and kname == "int" and t == "Int":
        accept = -2 ** 31 <= n < 2 ** 31
    if not accept:
        return verdict(bool(r.get("errors")) and not seen)
    if r.get("errors") or len(seen) != 1:
        return verdict(False)
    got = seen[0].get("v")
    if kname == "int":
        exp = float(n) if t == "Float" else (str(n) if t == "ID" else n)
        if t == "ID":
            return verdict(True)      # ID takes the literal's TEXT, which this encoding abstracts as the int itself: only acceptance is compared here (c10_echo compares the text)
    else:
        exp = KIND_VALUE[kname]
    return verdict(type(got) is type(exp) and got == exp)
