"""C16 — the query cache and the request history never change a response.  (DESIGN §4 C16)"""
from functools import lru_cache
from typing import Optional
from vf import env
from vf.env import pick, pickb, verdict, observe, safe, build, DictCache
from vf.ob import obligation, shard
from tartiflette import Resolver

META = {
    "bounds": "request sequences of length 3 (first x second from the shard set below; third = first again / second again / one of 4 probes) over a pool of 17 documents (valid incl. fragments on interface / implementer, variables nested in object/list literals and multi-operation, invalid, syntactically broken, "
              "runtime-failing) x str/bytes spelling x per-request int variable (unbounded) x operation name; 4 cache configurations: default lru_cache(512) (real, CrossHair's cache "
              "bypass removed), lru_cache(1), custom dict decorator, cache disabled",
    "outside": "sequences longer than 3; cache decorators other than these four",
    "explanation": "Position by position the cached engine's response must equal the response of an engine without parsing cache AND a hand-written answer per pool document (the uncached engine shares the history).",
}
SDL = """
input F { id: Int tag: String = "t" }
interface Pet { name: String }
type Dog implements Pet { name: String }
type Cat implements Pet { name: String }
type Query { echo(v: Int): Int item(filter: F): Int ids(list: [Int]): Int a: Int nn: Int! pets: [Pet] dog: Dog }
"""


async def _res(parent, args, ctx, info):
    f = info.field_name
    if f == "echo":
        return args.get("v")
    if f == "item":
        return (args.get("filter") or {}).get("id")
    if f == "ids":
        l = args.get("list") or []
        return l[1] if len(l) > 1 else None
    if f == "nn":
        return None if (ctx or {}).get("fail") else 1
    if f == "pets":
        return [{"_typename": "Dog", "name": "d"}, {"_typename": "Cat", "name": "c"}]
    if f == "dog":
        return {"_typename": "Dog", "name": "d"}
    if f == "name":
        return parent["name"]
    return 7


HANDLES = []


def _lru1(fn):
    w = lru_cache(maxsize=1)(fn); HANDLES.append(w); return w


DICT = DictCache()
ENGS = {
    "default": build(SDL, "c16_default", custom_default_resolver=_res),
    "lru1": build(SDL, "c16_lru1", custom_default_resolver=_res, query_cache_decorator=_lru1),
    "dict": build(SDL, "c16_dict", custom_default_resolver=_res, query_cache_decorator=DICT),
    "none": build(SDL, "c16_none", custom_default_resolver=_res, query_cache_decorator=None),
}
def _uncached_untraced(fn):
    """the reference engine never caches; parsing+validating the (concrete) pool text runs outside tracing — no symbolic value enters it"""
    from crosshair.tracers import NoTracing

    def w(q, s):
        with NoTracing():
            return fn(q, s)
    return w


FRESH = build(SDL, "c16_fresh", custom_default_resolver=_res, query_cache_decorator=_uncached_untraced)
HANDLES.append(ENGS["default"]._cached_parse_and_validate_query)       # reset handle only (per-path determinism)

POOL = [
    "query Q($v: Int) { echo(v: $v) a }",
    "query Q($v: Int) { item(filter: {id: $v}) }",
    "query Q($v: Int) { ids(list: [1, $v]) }",
    "query A($v: Int = 11) { a echo(v: $v) } query B($v: Int = 22, $w: Int = 5) { x: echo(v: $v) y: echo(v: $w) }",
    "{ nope }",
    "query Q($v: Int) { a }",
    "{ a ",
    "{ nn a }",
    "query Q($v: Int = 4) { x: echo(v: $v) item(filter: {id: 3, tag: \"z\"}) }",
    "{ dog { ...P } pets { name } } fragment P on Pet { name }",          # valid: a fragment on the interface inside an object-typed selection
    "{ pets { ...C } } fragment C on Cat { name }",                       # valid: a fragment on one implementer inside the interface-typed selection
    "{ dog { ...C } } fragment C on Cat { name }",                        # invalid (5.5.2.3): Cat can never apply inside Dog
    b"{ a \xff }",                                                        # bytes that are not valid UTF-8 (always sent as bytes): a syntax error, cached or not
    "{ ...UF } fragment UF on Query { a ...EX } fragment EX on Query { nn ...UF }",            # invalid: fragment cycle
    "{ ...UF } fragment UF on Query { ...EX a } fragment EX on Query { nn }",                 # valid, re-uses the fragment names of the cyclic document
    "query Q($v: Int!) { echo(v: $v) }",                                                      # a REQUIRED variable: null / out of range fails before execution, a good value succeeds (same text)
    "query A($v: Int!) { echo(v: $v) } query B { a }",                                        # operation A needs $v, operation B does not
]
I32 = 2 ** 31


def oracle(idx, v, opsel):
    """the response every engine must give, written by hand from the pool: (data or None, has errors)"""
    if idx in (4, 5, 6, 11, 12, 13):
        return None, True
    if idx == 14:
        return {"nn": 1, "a": 7}, False
    if idx == 15:
        return (None, True) if (v is None or not (-I32 <= v < I32)) else ({"echo": v}, False)
    if idx == 16:
        if opsel:
            return {"a": 7}, False
        return (None, True) if (v is None or not (-I32 <= v < I32)) else ({"echo": v}, False)
    provided = "$v" in POOL[idx] and not (idx in (3, 8) and v is None)
    if provided and v is not None and not (-I32 <= v < I32):
        return None, True                 # variable coercion refuses the request
    if idx == 0:
        return {"echo": v, "a": 7}, False
    if idx == 1:
        return {"item": v}, False
    if idx == 2:
        return {"ids": v}, False
    if idx == 3:
        if opsel:
            return {"x": v if provided else 22, "y": 5}, False
        return {"a": 7, "echo": v if provided else 11}, False
    if idx in (4, 5, 6, 11):          # unknown field, unused variable, syntax error, impossible fragment spread
        return None, True
    if idx == 7:
        return (None, True) if opsel else ({"nn": 1, "a": 7}, False)
    if idx == 8:
        return {"x": v if provided else 4, "item": 3}, False
    if idx == 9:
        return {"dog": {"name": "d"}, "pets": [{"name": "d"}, {"name": "c"}]}, False
    return {"pets": [{}, {"name": "c"}]}, False


def matches(r, exp):
    data, has_err = exp
    if not isinstance(r, dict) or bool(r.get("errors")) != has_err:
        return False
    got = r.get("data")
    if data is None or got is None:
        return data is None and got is None
    return got == data


def _clear(h):
    """per-path determinism only (an engine-private handle): follow wrappers down to whatever offers cache_clear; nothing to clear is fine"""
    seen = 0
    while h is not None and seen < 5:
        cc = getattr(h, "cache_clear", None)
        if cc is not None:
            cc()
            return
        nxt = getattr(h, "__wrapped__", None)
        if nxt is None and getattr(h, "__closure__", None):
            nxt = next((c.cell_contents for c in h.__closure__ if callable(getattr(c.cell_contents, "cache_clear", None))), None)
        h = nxt; seen += 1


def reset_caches():
    for h in HANDLES:
        _clear(h)
    DICT.d.clear()


def send(eng, idx, v, asbytes, opsel):
    q = POOL[idx]
    if asbytes and isinstance(q, str):
        q = q.encode("utf-8")
    op = None
    if idx in (3, 16):
        op = "B" if opsel else "A"
    ctx = {"fail": idx == 7 and opsel}
    variables = {"v": v} if isinstance(POOL[idx], str) and "$v" in POOL[idx] and not (idx in (3, 8) and v is None) else {}      # None = variable not provided where a default exists
    return env.run(eng.execute(q, variables=variables, operation_name=op, context=ctx))


# thorough shard set (sized to finish: a shard costs ~1 CPU-minute). default cache: every ordered pair of the 17 documents with the str spelling / first operation,
# plus the other three (spelling, operation) combinations for pairs within a core of six documents; the other three cache configurations: every ordered pair
# that involves one of the documents that carry state-like behaviour (several operations, fragments on abstract types, invalid bytes, cycles, required variables)
CORE16 = (0, 1, 2, 3, 7, 8)
SPECIAL16 = (3, 10, 12, 13, 14, 15, 16)
SH16 = [{"cfg": "default", "first": f, "second": g, "b1": 1, "o": 1} for f in range(len(POOL)) for g in range(len(POOL))]
SH16 += [{"cfg": "default", "first": f, "second": g, "b1": b, "o": o} for f in CORE16 for g in CORE16 for (b, o) in ((0, 0), (0, 1), (1, 0))]
SH16 += [{"cfg": c, "first": f, "second": g, "b1": 1, "o": 1} for c in ENGS if c != "default" for f in range(len(POOL)) for g in range(len(POOL))
         if f in SPECIAL16 or g in SPECIAL16 or f == g or (c, f, g) in (("lru1", 1, 0), ("lru1", 2, 4), ("none", 9, 10), ("lru1", 11, 9), ("dict", 10, 9), ("dict", 12, 0), ("lru1", 0, 12))]
# the third request: one of six candidates (the first, the second, and four fixed probes) — a shard with all 17 candidates cost 3-4 CPU-minutes
THIRD = (0, 3, 10, 14)
Q16 = [i for i, s in enumerate(SH16) if ((s["b1"], s["o"]) == (1, 1) or (s["cfg"], s["first"], s["second"], s["b1"], s["o"]) == ("default", 3, 3, 0, 0)) and (s["cfg"], s["first"], s["second"]) in (("default", 0, 0), ("default", 1, 1), ("default", 2, 2), ("default", 3, 3), ("default", 6, 0), ("default", 4, 1),
                                                                               ("lru1", 1, 0), ("lru1", 2, 4), ("default", 9, 10), ("default", 11, 10), ("default", 12, 12), ("dict", 12, 0), ("lru1", 0, 12), ("default", 13, 14), ("none", 13, 14), ("default", 15, 15), ("dict", 15, 15), ("lru1", 16, 16), ("default", 16, 16), ("lru1", 14, 13), ("dict", 13, 13), ("none", 9, 10), ("lru1", 11, 9), ("dict", 10, 9), ("dict", 2, 2), ("dict", 8, 8), ("none", 1, 1), ("default", 7, 7))]


@obligation(tier="quick", timeout=300, thorough_timeout=900, shards=SH16, quick_shards=Q16,
            samples=[{"i2": 3, "v0": 1, "v1": 2, "b1": True, "o": True}, {"i2": 2, "v0": 2**31, "v1": None, "b1": False, "o": False}, {"i2": 0, "v0": 2**31, "v1": 5, "b1": True, "o": True},
                     {"i2": 1, "v0": -2**31 - 1, "v1": 0, "b1": True, "o": False}, {"i2": 5, "v0": 0, "v1": -1, "b1": False, "o": True}],
            symbolic=["v0: int, v1: Optional[int] — the variables of the first two requests (unbounded); the third request reuses v1 (v0 when v1 is absent)"],
            selectors=["i2: the 3rd request: again the first, again the second, or one of four fixed probes (documents 0, 3, 10, 14)", "shard: cache configuration, first and second request, str/bytes spelling of the 2nd request (the 3rd uses the other one), operation name / failure selector"],
            bounds="sequences of 3 requests (every prefix is checked position by position) over 17 documents",
            note="every response of the sequence == the uncached engine's response to the same request; repeating a request gives the same response; failed/invalid requests leave no trace")
def c16_history(i2: int, v0: int, v1: Optional[int], b1: bool, o: bool) -> bool:
    """
    post: _
    """
    sh = shard()
    eng = ENGS[sh["cfg"]]
    third = [sh["first"], sh["second"]] + list(THIRD)
    idxs = [sh["first"], sh["second"], third[pick(i2, len(third))]]
    b1 = bool(sh["b1"])
    # the third request shares its spelling with the first (when the second is spelled as bytes) but carries the SECOND request's variable value
    vs = [v0, v1, v1 if v1 is not None else v0]; bs = [False, b1, not b1]
    o = bool(sh["o"])
    reset_caches()
    for k, idx in enumerate(idxs):
        ok_sel = o if k != 1 else not o          # the 2nd request names the other operation / toggles the failure
        ok, r = safe(lambda: send(eng, idx, vs[k], bs[k], ok_sel))
        ok2, ref = safe(lambda: send(FRESH, idx, vs[k], bs[k], ok_sel))
        observe((idx, vs[k], bs[k]), r, ref)
        if not ok or not ok2 or r != ref:
            return verdict(False)
        # the uncached engine itself has seen the earlier requests of the sequence: both are also held against the hand-written answer
        if not matches(r, oracle(idx, vs[k], ok_sel)):
            return verdict(False)
    return verdict(True)
