#!/usr/bin/env python3
"""Regenerates MANIFEST.json from the table below (kept in one place so it stays valid)."""
import json, os
ROOT = os.path.dirname(os.path.dirname(os.path.abspath(__file__)))
E1 = "symbolic execution of the real code (CrossHair + z3), bounded, against a reference model"
CLAIMED = {
 "C01": ("real Engine.execute executed symbolically per document template x engine configuration over all resolver leaf values, @skip/@include Booleans, runtime-type choices, list lengths 0..2; compared (data incl. key order, error accounting, resolver call log) with a reference executor written from the spec", E1 + " (spec reference executor)"),
 "C02": ("every single fault point of each catalogue request x 9 failure kinds x 8 nullability layouts explored exhaustively by the symbolic executor (payload ints unbounded); pairs of faults in the thorough tier; oracle = reference null propagation with the spec's error-set latitude, paths, locations, user message/extensions", E1 + " (reference null-propagation)"),
 "C03": ("one adversarial resolver output (symbolic None/bool/int/str or a 56-entry catalogue of exotic values) at every field instance: no raise, structural conformance of data to schema x selection, nulls explained by errors, json.dumps succeeds", E1 + " (structural conformance checker)"),
 "C04": ("15 variable types x defaults x JSON value shapes with symbolic leaves: refused <=> reference CoerceVariableValues fails (data null, nothing ran, variable named), otherwise the resolver saw exactly the coerced value (absent != null)", E1 + " (reference CoerceVariableValues)"),
 "C05": ("literal form == variable form == default form of the same value against reference CoerceArgumentValues (int literal text abstracted as int(text)=n, n unbounded); variable type x position type matrix incl. nested usages; failing argument fails that field only", E1 + " (reference CoerceArgumentValues)"),
 "C06": ("valid-by-construction generators (all fragment DAGs on 3 fragments with multiplicity <= 2 x placement x order; legal spreads, literals, variable usages, meta-fields, repeats, directives, multi-operation) accepted and executed with the reference result", E1 + " (valid-by-construction generators)"),
 "C07": ("72 selection-level rule-breaking rewrites x 6 sites, 49 definition-level invalid documents, symbolic Int literals (all integers) at 9 nesting positions, 5.8.5 wrapper-bit matrix: data null, errors, every run counter zero", E1 + " (violation-injecting rewrites)"),
 "C08": ("every completion order of <= 5 gated resolvers / argument hooks x 9 engine configurations x 5 gate layouts (failing non-null leaves, non-null list items): response equals the FIFO/default response, all started work finished, nothing started twice", E1 + " over a scheduler model (MiniLoop) with solver-chosen completion order"),
 "C09": ("4 mutation documents x every completion order of <= 4 gated nested resolvers x 7 failure placements x 2 configurations: serial start/finish log, document-order keys, nullable/non-null root failure semantics", E1 + " over a scheduler model (MiniLoop)"),
 "C10": ("E2: the scalar kernels' current source translated to SMT per input kind; laws discharged as unsat over ALL ints (z3 Int) / ALL binary64 floats (FP 11 53): range, integrality, finiteness, kind tables, literal == variable, idempotence; E1: echo through the engine", "Python-AST -> SMT translation of the real scalar functions (z3 Int/FP queries, unsat = law holds for all values) + CrossHair echo obligations"),
 "C11": ("8 SDL models (every kind, wrappers to depth 3, defaults of every literal kind, extensions, custom root names, directives, deprecation, hidden fields, implementers declared before/after their interface) in up to 3 declaration orders x 4 ways of supplying the SDL: the standard introspection query equals the expected introspection computed by an independent SDL reader; __type(name:) for every string; schema-level @nonIntrospectable", E1 + " (independent SDL reader + expected introspection)"),
 "C12": ("95 rule-breaking SDL texts + wrapper-bit generators for interface conformance (field types 8x8x6, argument types 8x8, extra arguments): create_engine raises for every SDL that breaks a checked rule; builds run concretely after the selectors are resolved by the symbolic executor", "bounded enumeration of a violation catalogue driven by the symbolic executor (CrossHair selectors, concrete engine builds)"),
 "C13": ("6 decorated schemas (0..3 directives per element, repeated instances) x 4 query-side layouts x 3 supply modes: the value and query-side directive arguments are unbounded ints; result == expected composition polynomial (hooks are non-commuting affine maps), hook log == expected sequence", E1 + " (composition polynomial oracle)"),
 "C14": ("6 subscription documents x event lists of length <= 3 over unbounded ints/None x gated source/consumer: one response per event in order, each equal to executing the payload, source started once with coerced arguments; invalid requests yield one errors-only response without starting the source", E1 + " over MiniLoop"),
 "C15": ("2-3 requests in flight on one engine (5 documents, per-request int/Boolean variables, faults), every completion order of the gated resolvers across requests: each response == its solo response; a later probe == a never-shared uncached engine", E1 + " over MiniLoop with solver-chosen interleaving"),
 "C16": ("request sequences of length 3 (every prefix checked) over 9 documents x str/bytes x unbounded int variables x 4 cache configurations (real lru_cache(512), lru_cache(1), dict decorator, none): position by position equal to an uncached engine", E1 + " (differential against an uncached engine)"),
 "C17": ("3 bundles with identical type/field names, every subset x registration order x cooking order (48 scenarios): each co-resident engine answers 6 requests + 1 subscription like an oracle validated against the bundle built alone in a fresh process; registry bake/lookup with a symbolic schema name (all strings)", E1 + " (symbolic schema name; oracle validated in a fresh process)"),
 "C18": ("operation_name: every string against 5 document shapes (GetOperation); arbitrary parser error string; 17 texts x str/bytes x operation names: never raises, well-formed response, locations inside the text; custom error coercer awaited once per error", E1 + " (well-formedness predicate, GetOperation reference)"),
}
NA = {}
TODO = []
def main():
    import importlib.util
    claimed = {k: v for k, v in CLAIMED.items() if os.path.exists(os.path.join(ROOT, "harness", k + ".py"))}
    checks = []
    for pid, (text, tech) in sorted(claimed.items()):
        checks.append({
            "property_id": pid, "quick_cmd": f"./vcheck {pid} --tier quick", "thorough_cmd": f"./vcheck {pid} --tier thorough",
            "evidence_file": f"evidence/{pid}.json", "replay_cmd_template": "./vcheck replay {path}", "engine": "E1-crosshair" if pid != "C10" else "E2-py2smt",
            "level_claimed": {"category": "other", "text": "bounded symbolic execution / SMT: " + text + ". 'Discharged' = path tree exhausted (CrossHair 'Confirmed over all paths') or unsat; inconclusive obligations are listed and claim nothing.", "design_ref": f"DESIGN.md §4 {pid}"},
            "level_note": "trusted: CPython 3.12, CrossHair 0.0.110, z3 5.1, the FFI model vf/gqlfront.py (the C parser is absent in this sandbox), MiniLoop, the CrossHair plugin stubs (vf/chplugin.py) and the reference models in vf/ref; bounded to the stated catalogue",
            "technique": tech})
    na = [{"property_id": p, "reason": NA.get(p, "check not built yet in this session (planned: E1, DESIGN §4)")} for p in sorted(set(TODO) - set(claimed))]
    m = {"version": 1, "setup_cmd": "./setup.sh",
         "hooks": {"guard": "TARTIFLETTE_VERIF", "enable": "no source hooks are needed: checks import /repo's working tree directly; LIBGRAPHQLPARSER_DIR (already honoured by the code) points at a stub .so built by setup.sh and the absent C parser is modelled harness-side",
                   "baseline_off_cmd": "cd /repo && /venv/bin/python -m pytest -ra -q -p no:cacheprovider --timeout=900 --continue-on-collection-errors", "source_commits": [], "add_only": True},
         "engines": [{"name": "E1-crosshair", "path": "vf/worker.py", "serves_properties": [p for p in sorted(claimed) if p != "C10"] + ["C10"], "kind_free_text": "CrossHair 0.0.110 / z3 5.1 symbolic execution of the real tartiflette functions through harness obligations (harness/Cxx.py)"},
                     {"name": "E2-py2smt", "path": "vf/py2smt.py", "serves_properties": ["C10"], "kind_free_text": "Python AST -> z3 translation of the scalar kernels, regenerated from the current source on every run"}],
         "checks": checks, "not_applicable": na,
         "notes": "See DESIGN.md (section 10: as built; 11: seeded changes). /repo carries NO hook/instrumentation commit; its 'fix:' commits (cb95eea, 8b66ee2, cf1cae1, 623c0d2, 5b4b5f1, 06f5f4f, 8ad2374, 0d87cfb, 646704a) repair genuine defects found by these checks and are listed in known_findings.json together with the open findings F5, F6, F7, F11, F14. ./vcheck re-runs setup.sh idempotently; checks import tartiflette from /repo's working tree on every run (VF_REPO overrides it for mutation trials). Repairs of genuine defects are 'fix:' commits in /repo, listed in known_findings.json."}
    json.dump(m, open(os.path.join(ROOT, "MANIFEST.json"), "w"), indent=1)
    print("claimed", sorted(claimed), "n/a", [x["property_id"] for x in na])
main()
