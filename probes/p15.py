import sys; sys.path.insert(0, "/verif/probes")
from typing import Optional, List
import base, chplug, miniloop2, refexec, gqlfront
from base import *
from refexec import Ref, to_pairs, FieldError
from tartiflette import TartifletteError

class MyErr(TartifletteError):
    pass

FAULTS = {}
def apply_fault(kind):
    if kind == 0: raise ValueError("boom")
    if kind == 1: raise MyErr("user msg", extensions={"code": 7})
    if kind == 2: return ValueError("as value")
    if kind == 3: return None
    if kind == 4: return "not-a-number"
    raise AssertionError

async def universal(parent, args, ctx, info):
    p = tuple(info.path.as_list())
    if p in FAULTS:
        return apply_fault(FAULTS[p])
    if parent is None:
        return None
    return parent.get(info.field_name)

def sdl(b0, b1, b2):
    return """
type Leaf {{ n: Int{0} }}
type Mid {{ leaf: Leaf{1} leaves: [Leaf{2}] n: Int }}
type Query {{ mid: Mid mids: [Mid] n: Int }}
""".format("!" if b0 else "", "!" if b1 else "", "!" if b2 else "")
def model(b0, b1, b2):
    nn = lambda t, b: ("NN", t) if b else t
    return {
     "Query": {"kind": "OBJECT", "fields": {"mid": "Mid", "mids": ("LIST", "Mid"), "n": "Int"}},
     "Mid": {"kind": "OBJECT", "fields": {"leaf": nn("Leaf", b1), "leaves": ("LIST", nn("Leaf", b2)), "n": "Int"}},
     "Leaf": {"kind": "OBJECT", "fields": {"n": nn("Int", b0)}},
     "Int": {"kind": "SCALAR"},
    }
ENGS = {}; MODELS = {}
for bits in range(8):
    b = (bits & 1, (bits >> 1) & 1, (bits >> 2) & 1)
    ENGS[bits] = build(sdl(*b), "p15_%d" % bits, query_cache_decorator=DictCache(), custom_default_resolver=universal)
    MODELS[bits] = model(*b)
Q = "{ n mid { n leaf { n } leaves { n } } mids { leaf { n } } }"
AST = gqlfront.parse(Q)
DATA = {"n": 1, "mid": {"n": 2, "leaf": {"n": 3}, "leaves": [{"n": 4}, {"n": 5}]}, "mids": [{"leaf": {"n": 6}}, {"leaf": {"n": 7}}]}
for e in ENGS.values():
    miniloop2.MiniLoop().run_until_complete(e.execute(Q, initial_value=DATA))
# enumerate fault points (field instances) from a fault-free reference run
def _points():
    r = Ref(MODELS[0], AST, {}, lambda pt, fn, parent, args, path: (parent or {}).get(fn), None)
    r.run(AST["definitions"][0], "Query", DATA)
    return [c[0] for c in r.calls]
POINTS = _points()
print(len(POINTS), POINTS, file=sys.stderr)

def pick(x, n):
    for j in range(n - 1):
        if x == j: return j
    return n - 1

def c02(bits: int, k: int, kind: int) -> bool:
    """
    pre: 0 <= bits < 8 and 0 <= k < 13 and 0 <= kind < 5
    post: _
    """
    bits = pick(bits, 8); k = pick(k, len(POINTS)); kind = pick(kind, 5)
    FAULTS.clear(); FAULTS[POINTS[k]] = kind
    try:
        resp = miniloop2.MiniLoop().run_until_complete(ENGS[bits].execute(Q, initial_value=DATA))
    except Exception:
        return False
    def resolve(pt, fn, parent, args, path):
        if path in FAULTS:
            return apply_fault(FAULTS[path])
        return None if parent is None else parent.get(fn)
    ref = Ref(MODELS[bits], AST, {}, resolve, None)
    exp = ref.run(AST["definitions"][0], "Query", DATA)
    got = to_pairs(resp["data"])
    errs = [tuple(e["path"]) for e in resp.get("errors", [])]
    ok = got == exp and all(e in ref.errors for e in errs) and all(any(c in errs for c in causes) for _, causes in ref.nulled) \
        and (("errors" in resp) == bool(ref.errors))
    if not ok:
        print("MISMATCH", bits, POINTS[k], kind, resp, exp, ref.errors, file=sys.stderr)
    return ok
