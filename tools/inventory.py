"""tools/inventory.py: obligations per harness (name, tier, shards, quick shards, note) — used to keep DESIGN.md §10.3 honest"""
import sys, importlib, os
sys.path.insert(0, os.path.dirname(os.path.dirname(os.path.abspath(__file__))))
from vf import env, ob  # noqa
for i in range(1, 19):
    m = importlib.import_module("harness.C%02d" % i)
    print("C%02d" % i)
    for o in ob.obligations(m.__name__):
        q = len(o.quick_shards) if o.quick_shards is not None else len(o.shards)
        print("   %-28s tier=%-8s shards=%4d quick=%4d  %s" % (o.name, o.tier, len(o.shards), q if o.tier == "quick" else 0, (o.note or "")[:110]))
    if hasattr(m, "e2_obligations"):
        print("   E2: SMT obligations over translated kernels (see evidence/C10.json)")
