"""C04 — variable values are coerced exactly as the specification prescribes (§6.1.2 + input coercion). (DESIGN §4 C04)"""
from typing import Optional
from vf import env
from vf.env import pick, pickb, verdict, observe, safe, build, DictCache
from vf.ob import obligation, shard, finding_open
from vf.ref.model import model_from_sdl, ABSENT
from vf.ref import coerce as C
from vf.ref.execute import tref_of
from vf import gqlfront
from tartiflette import Resolver, Scalar
from crosshair.tracers import NoTracing

META = {
    "bounds": "19 declared variable types (4 of them with schema directives on every input-side element; scalars incl. custom, enum, recursive input object with defaults, list/non-null nestings to depth 3) x up to 4 "
              "variable defaults each x JSON values assembled from tags {absent,null,bool,int,str,list<=2,object} with symbolic leaves; a second required variable; an undeclared extra variable",
    "outside": "lists longer than 2; JSON floats other than the 12-entry catalogue (all binary64: C10/E2); ints beyond 2^1000 at Float positions; ID rendering of symbolic ints (CPython str(int))",
    "explanation": "Oracle: vf/ref/coerce.py CoerceVariableValues written from the spec; compared on refusal (data null, nothing ran, offending variable named) and on the value the resolver observed (absent != null).",
}

NAME = "c04"
TYPES = [
    ("i", "Int", [None, "3", "null", "\"str\""]), ("ni", "Int!", [None, "3"]), ("li", "[Int]", [None, "[1, 2]", "3", "null"]),
    ("nli", "[Int!]!", [None, "[1]"]), ("lli", "[[Int]]", [None, "[[1], [2, null]]", "4"]), ("lnli", "[[Int!]]!", [None]),
    ("s", "String", [None, "\"d\""]), ("b", "Boolean!", [None, "true"]), ("f", "Float", [None, "1.5", "2"]), ("id", "ID", [None, "\"x\"", "5"]),
    ("c", "Color", [None, "GREEN"]), ("lc", "[Color!]", [None, "[RED]", "GREEN"]), ("ms", "My", [None, "7"]),
    ("o", "Inp", [None, "{x: 1}", "{x: 1, inner: {x: 2, c: GREEN}}"]), ("lo", "[Inp!]", [None, "[{x: 1}]", "{x: 3}"]),
    # the same shapes of types, every input-side element carrying a schema directive (one without any hook, one with a pass-through hook)
    ("ca", "ColorA", [None]), ("lca", "[ColorA!]", [None]), ("oa", "InpA", [None]), ("msa", "MyA", [None]),
]
SDL = "scalar My\nenum Color { RED GREEN }\ninput Inp { x: Int! y: [Int] = [1] c: Color = RED inner: Inp }\n" \
      "directive @audited on INPUT_FIELD_DEFINITION | ENUM | ENUM_VALUE | INPUT_OBJECT | SCALAR\ndirective @seen on INPUT_FIELD_DEFINITION | ENUM | INPUT_OBJECT | SCALAR\n" \
      "scalar MyA @audited @seen\nenum ColorA @seen @audited { RED @audited GREEN }\n" \
      "input InpA @audited { x: Int! @audited @seen y: [Int] = [1] @seen c: ColorA = RED @audited inner: InpA @seen }\ntype Query {\n" + \
      "\n".join("  p_%s(x: %s, w: Int): String" % (n, t) for n, t, _ in TYPES) + "\n}\n"
LOG = []


class My:
    def coerce_output(self, v):
        return v

    def coerce_input(self, v):
        return v

    def parse_literal(self, ast):
        return int(ast.value) if hasattr(ast, "value") else None


Scalar("My", schema_name=NAME)(My)
Scalar("MyA", schema_name=NAME)(My)
from tartiflette import Directive as _D  # noqa: E402


class _NoHook:
    pass


class _PassThrough:
    async def on_post_input_coercion(self, directive_args, next_directive, parent_node, value, ctx):
        return await next_directive(parent_node, value, ctx)


_D("audited", schema_name=NAME)(_NoHook())
_D("seen", schema_name=NAME)(_PassThrough())
for _n, _t, _ in TYPES:
    @Resolver("Query.p_%s" % _n, schema_name=NAME)
    async def _r(parent, args, ctx, info):
        LOG.append(args)
        return "ok"
ENG = build(SDL, NAME, query_cache_decorator=DictCache())
MODEL = model_from_sdl(SDL)
MODEL["custom"] = {"My": {"in": lambda v: v, "lit": lambda n: int(n["value"]), "out": lambda v: v}, "MyA": {"in": lambda v: v, "lit": lambda n: int(n["value"]), "out": lambda v: v}}


def qtext(ti, di):
    n, t, ds = TYPES[ti]
    d = ds[di]
    return "query Q($v: %s%s, $w: Int!) { p_%s(x: $v, w: $w) }" % (t, "" if d is None else " = " + d, n)


QS = {(ti, di): qtext(ti, di) for ti in range(len(TYPES)) for di in range(len(TYPES[ti][2]))}
ASTS = {k: gqlfront.parse(q) for k, q in QS.items()}
for q in QS.values():
    env.run(ENG.execute(q, variables={"w": 1}))

FLOATS = [1.5, 3.0, -0.0, float("nan"), float("inf"), float("-inf"), 1e308, 5e-324, 2.0 ** 31, -2.0 ** 31 - 1, 2.0 ** 53 + 2, 0.1]


def leaf(tag, n, s, b, fi):
    """tag: 0 null, 1 int, 2 str, 3 bool, 4 enum-name str, 5 float from the catalogue"""
    if tag == 0:
        return None
    if tag == 1:
        return n
    if tag == 2:
        return s
    if tag == 3:
        return b
    if tag == 4:
        return "RED"
    return FLOATS[fi]


NL = 6


def build_value(shape, L, hx, hy, hc, hin, hz):
    """shape: 0 absent, 1 leaf, 2 [leaf], 3 [leaf, leaf], 4 [[leaf], leaf], 5 object, 6 [object], 7 [] , 8 [[leaf, leaf]]
    L(i) builds the i-th leaf on demand, so only the selectors a shape uses are branched on."""
    if shape == 1:
        return L(0)
    if shape == 2:
        return [L(0)]
    if shape == 3:
        return [L(0), L(1)]
    if shape == 4:
        return [[L(0)], L(1)]
    if shape == 7:
        return []
    if shape == 8:
        return [[L(0), L(1)]]
    o = {}
    if hx:
        o["x"] = L(0)
    if hy:
        o["y"] = L(1)
    if hc:
        o["c"] = L(2)
    if hin:
        o["inner"] = {"x": L(1)} if hx else {"y": [1]}
    if hz:
        o["zzz"] = 1
    return o if shape == 5 else [o]


NSHAPE = 9


def _shards():
    out = []
    for ti, (n, t, ds) in enumerate(TYPES):
        for di in range(len(ds)):
            for shape in range(NSHAPE):
                isobj = "Inp" in t
                if shape in (5, 6) and not isobj:
                    if not (shape == 5 and n in ("i", "li", "s", "ms")):
                        continue
                if isobj and shape in (3, 4, 8):
                    continue
                if di > 0 and shape not in (0, 1, 2):
                    continue
                if ds[di] == "\"str\"" and shape != 0:
                    continue          # an invalid default that is not used: the document is invalid (C07's subject), C04 says nothing
                if isobj and shape in (5, 6):
                    for bits in range(32):
                        out.append({"ti": ti, "di": di, "shape": shape, "hx": bits & 1, "hy": (bits >> 1) & 1, "hc": (bits >> 2) & 1,
                                    "hin": (bits >> 3) & 1, "hz": (bits >> 4) & 1})
                else:
                    out.append({"ti": ti, "di": di, "shape": shape})
    return out


SHARDS = _shards()
def _quick(s):
    if "hx" in s and TYPES[s["ti"]][0] == "lo":
        return s["shape"] == 5 and (s["hx"], s["hy"], s["hc"], s["hin"], s["hz"]) in ((1, 0, 0, 0, 0), (1, 1, 0, 0, 0))     # a single object where a list of objects is expected
    if "hx" in s:
        return TYPES[s["ti"]][0] in ("o", "oa") and s["shape"] == 5 and (s["hx"], s["hy"], s["hc"], s["hin"], s["hz"]) in ((1, 0, 0, 0, 0), (0, 1, 0, 0, 0), (1, 1, 0, 0, 0), (1, 0, 1, 0, 0), (1, 0, 0, 1, 0), (1, 0, 0, 0, 1), (0, 0, 0, 1, 0))
    if s["di"] == 1 and s["shape"] == 1 and TYPES[s["ti"]][0] in ("i", "ni", "li", "b"):
        return True          # a provided value (incl. explicit null) where the variable declares a default
    if TYPES[s["ti"]][0] in ("ca", "lca", "msa") and s["shape"] in (1, 3):
        return True          # decorated input types: a wrong-kind / unknown / null leaf
    if TYPES[s["ti"]][0] in ("lc", "lnli", "li") and s["di"] == 0 and s["shape"] in (0, 1, 3):
        return True          # declared types whose wrapper sequence is not a palindrome ([T!], [[T!]]!): null / absent at each level
    return TYPES[s["ti"]][0] in ("i", "nli", "lli", "o", "c", "f") and (s["di"] == 0 or s["shape"] == 0)


QUICK = [i for i, s in enumerate(SHARDS) if _quick(s)]


@obligation(tier="quick", timeout=200, shards=SHARDS, quick_shards=QUICK,
            samples=[{"t0": 1, "t1": 0, "n0": 5, "n1": 2**31, "s": "x", "b": True, "fi": 0, "hx": True, "hy": False, "hc": False, "hin": False, "hz": False, "wp": 1, "wv": 3, "extra": True},
                     {"t0": 1, "t1": 1, "n0": -2**31, "n1": 2**31 - 1, "s": "", "b": False, "fi": 9, "hx": True, "hy": True, "hc": False, "hin": True, "hz": False, "wp": 2, "wv": -2**31, "extra": False},
                     {"t0": 1, "t1": 1, "n0": 0, "n1": -2**31 - 1, "s": "0", "b": False, "fi": 2, "hx": True, "hy": True, "hc": True, "hin": False, "hz": False, "wp": 2, "wv": 2**31 - 1, "extra": False},
                     {"t0": 5, "t1": 5, "n0": 0, "n1": 0, "s": "x", "b": True, "fi": 9, "hx": True, "hy": False, "hc": False, "hin": False, "hz": False, "wp": 2, "wv": 0, "extra": False},
                     {"t0": 2, "t1": 1, "n0": -1, "n1": 1, "s": "RED", "b": False, "fi": 3, "hx": True, "hy": True, "hc": True, "hin": True, "hz": False, "wp": 0, "wv": 3, "extra": False}],
            symbolic=["n0, n1: int (unbounded) leaves", "s: str (all strings)", "b: bool", "wv: int value of the second variable"],
            selectors=["t0, t1: leaf kind tags 0..5", "fi: float catalogue index", "hx,hy,hc,hin,hz: input-object key presence bits", "wp: second variable absent/null/present", "extra: undeclared variable", "shard: type, default, value shape"],
            bounds="one (type, default, shape) per shard", findings=["F6"],
            note="refused <=> reference CoerceVariableValues fails; refused => data null, resolver not called, $v / $w named; else resolver saw exactly the coerced value")
def c04_var(t0: int, t1: int, n0: int, n1: int, s: str, b: bool, fi: int, hx: bool, hy: bool, hc: bool, hin: bool, hz: bool,
            wp: int, wv: int, extra: bool) -> bool:
    """
    post: _
    """
    sh = shard()
    ti, di, shape = sh["ti"], sh["di"], sh["shape"]
    name, tsrc, _ = TYPES[ti]
    if shape in (0, 1):
        wp = pick(wp, 3); extra = pickb(extra)
    else:
        wp = 2; extra = False        # the second / undeclared variables are varied with the simple shapes only
    if "ID" in tsrc:
        n0 = 12; n1 = -3          # str(<symbolic int>) is CPython's rendering and realises: concrete ints at ID positions
    if "Float" in tsrc and not (-2 ** 1000 < n0 < 2 ** 1000 and -2 ** 1000 < n1 < 2 ** 1000):
        return True
    cache = {}

    def L(i):
        if i not in cache:
            if i == 2:
                cache[i] = "GREEN" if pickb(b) else s
            else:
                tag = pick(t0 if i == 0 else t1, NL)
                cache[i] = leaf(tag, n0 if i == 0 else n1, s, b, pick(fi, len(FLOATS)) if tag == 5 else 0)
        return cache[i]
    variables = {}
    if "Inp" not in tsrc:
        hy = hc = hin = hz = False       # an object where none is expected: its content does not matter
    else:
        if "hx" in sh:
            hx, hy, hc, hin, hz = (bool(sh[k]) for k in ("hx", "hy", "hc", "hin", "hz"))
    if shape != 0:
        variables["v"] = build_value(shape, L, hx, hy, hc, hin, hz)
    if wp == 1:
        variables["w"] = None
    elif wp == 2:
        variables["w"] = wv
    if extra:
        variables["zzz"] = 1
    del LOG[:]
    q = QS[(ti, di)]
    ok, resp = safe(lambda: env.run(ENG.execute(q, variables=dict(variables))))
    observe(resp, list(LOG))
    if not ok:
        return verdict(False)
    op = ASTS[(ti, di)]["definitions"][0]
    vardefs = [(vd["variable"]["name"]["value"], tref_of(vd["type"]), vd["defaultValue"]) for vd in op["variableDefinitions"]]
    try:
        exp = C.coerce_variables(MODEL, vardefs, variables)
        bad = None
    except C.Bad as e:
        exp = None; bad = e.names
    observe(("expected", exp, bad))
    if exp is None:
        if resp.get("data") is not None or not resp.get("errors") or LOG:
            return verdict(False)
        for nm in bad:
            if not any(names(e["message"], nm) for e in resp["errors"]):
                return verdict(False)
        return verdict(True)
    if resp.get("errors") or len(LOG) != 1:
        return verdict(False)
    got = LOG[0]
    if ("x" in got) != ("v" in exp):
        return verdict(False)
    if "v" in exp:
        a, e = got["x"], exp["v"]
        if (a is None) != (e is None):
            return verdict(False)
        if a is not None and not same(a, e):
            return verdict(False)
    return verdict(got.get("w") == exp["w"])


def names(msg, nm):
    """does the error message name variable $nm?  A message that embeds a symbolic string is itself symbolic:
    substring search on it is not decidable cheaply, so only its (concrete) prefix is inspected."""
    with NoTracing():
        concrete = type(msg) is str
    if concrete:
        return ("$" + nm) in msg
    return msg.startswith("Variable < $" + nm + " >")


def same(a, e):
    """structural equality that keeps int/float/bool apart (1 != True, 1 != 1.0 in kind)"""
    if isinstance(e, bool) or isinstance(a, bool):
        return isinstance(a, bool) and isinstance(e, bool) and a == e
    if isinstance(e, list):
        return isinstance(a, list) and len(a) == len(e) and all(((x is None) == (y is None)) and (x is None or same(x, y)) for x, y in zip(a, e))
    if isinstance(e, dict):
        return isinstance(a, dict) and set(a.keys()) == set(e.keys()) and all(((a[k] is None) == (e[k] is None)) and (e[k] is None or same(a[k], e[k])) for k in e)
    if isinstance(e, float):
        return isinstance(a, float) and (a == e or (a != a and e != e))
    if isinstance(e, int):
        return isinstance(a, int) and a == e
    if isinstance(e, str):
        return isinstance(a, str) and a == e
    return a == e


# ---- a second schema in the same process declaring the SAME input-side type names differently: each engine coerces per its own declarations ----
NAME_B = "c04_b"
SDL_B = ("scalar My\nenum Color { GREEN BLUE }\ninput Inp { term: String! limit: Int = 10 c: Color = BLUE }\ntype Query {\n"
         "  p_c(x: Color, w: Int): String\n  p_lc(x: [Color!], w: Int): String\n  p_o(x: Inp, w: Int): String\n  p_lo(x: [Inp!], w: Int): String\n  p_ms(x: My, w: Int): String\n}\n")
LOG_B = []


class MyB:
    def coerce_output(self, v):
        return v

    def coerce_input(self, v):
        return v + 1 if isinstance(v, int) and not isinstance(v, bool) else v

    def parse_literal(self, ast):
        return None


Scalar("My", schema_name=NAME_B)(MyB)
TYPES_B = [("c", "Color"), ("lc", "[Color!]"), ("o", "Inp"), ("lo", "[Inp!]"), ("ms", "My")]
for _n, _t in TYPES_B:
    @Resolver("Query.p_%s" % _n, schema_name=NAME_B)
    async def _rb(parent, args, ctx, info):
        LOG_B.append(args)
        return "ok"
ENG_B = build(SDL_B, NAME_B, query_cache_decorator=DictCache())      # built AFTER schema c04 served requests for every type string
MODEL_B = model_from_sdl(SDL_B)
MODEL_B["custom"] = {"My": {"in": lambda v: v + 1 if isinstance(v, int) and not isinstance(v, bool) else v, "lit": lambda n: None, "out": lambda v: v}}
QS_B = {n: "query Q($v: %s, $w: Int!) { p_%s(x: $v, w: $w) }" % (t, n) for n, t in TYPES_B}
ASTS_B = {n: gqlfront.parse(q) for n, q in QS_B.items()}
ENUM_LEAVES = ["RED", "GREEN", "BLUE"]


def _check(eng, model, log, q, ast, variables):
    del log[:]
    ok, resp = safe(lambda: env.run(eng.execute(q, variables=dict(variables))))
    observe(q, resp, list(log))
    if not ok:
        return False
    op = ast["definitions"][0]
    vardefs = [(vd["variable"]["name"]["value"], tref_of(vd["type"]), vd["defaultValue"]) for vd in op["variableDefinitions"]]
    try:
        exp = C.coerce_variables(model, vardefs, variables)
    except C.Bad:
        exp = None
    observe(("expected", exp))
    if exp is None:
        return resp.get("data") is None and bool(resp.get("errors")) and not log
    if resp.get("errors") or len(log) != 1:
        return False
    got = log[0]
    if ("x" in got) != ("v" in exp):
        return False
    if "v" in exp:
        a, e = got["x"], exp["v"]
        if (a is None) != (e is None) or (a is not None and not same(a, e)):
            return False
    return True


@obligation(tier="quick", timeout=200, shards=[{"t": n, "bits": b} for n, _ in TYPES_B for b in (range(16) if n in ("o", "lo") else range(1))],
            quick_shards=[0, 1, 2 + 1, 2 + 2, 2 + 5, 2 + 9, 18 + 1, 34],
            samples=[{"e": 0, "s": "x", "n": 5, "aslist": False}, {"e": 2, "s": "BLUE", "n": -1, "aslist": True}, {"e": 3, "s": "GREEN", "n": 0, "aslist": False}],
            symbolic=["s: str (all strings) — enum name / `term`", "n: int (unbounded) — `limit`, `x`, the custom scalar's input"],
            selectors=["e: enum leaf RED / GREEN / BLUE / the symbolic string", "aslist: value wrapped in a list", "shard: variable type, key presence bits (term, limit, x, c)"],
            bounds="2 schemas that declare Color, Inp and My differently; 5 variable types; 16 key sets",
            note="two schemas in one process declare the same input type names differently (enum values, input fields and defaults, custom scalar): after the first served requests for every "
                 "type, the second coerces variables per ITS OWN declarations (reference CoerceVariableValues on its own model), and the first is still unaffected afterwards")
def c04_two_schemas(e: int, s: str, n: int, aslist: bool) -> bool:
    """
    post: _
    """
    sh = shard()
    t = sh["t"]; bits = sh["bits"]
    e = pick(e, 4)
    en = s if e == 3 else ENUM_LEAVES[e]
    if t in ("c", "lc"):
        v = en
    elif t == "ms":
        v = n
    else:
        v = {}
        if bits & 1:
            v["term"] = s
        if bits & 2:
            v["limit"] = n
        if bits & 4:
            v["x"] = n
        if bits & 8:
            v["c"] = en
    if pickb(aslist):
        v = [v]
    variables = {"v": v, "w": 1}
    if not _check(ENG_B, MODEL_B, LOG_B, QS_B[t], ASTS_B[t], variables):
        return verdict(False)
    # and the first schema afterwards, same type string, its own declarations
    ti = [i for i, (nm, _, _) in enumerate(TYPES) if nm == t][0]
    return verdict(_check(ENG, MODEL, LOG, QS[(ti, 0)], ASTS[(ti, 0)], variables))
