import os, sys
os.environ.setdefault("LIBGRAPHQLPARSER_DIR", "/verif/probes/lib")
sys.path.insert(0, "/verif/probes")
import json
import gqlfront
from tartiflette.language.parsers.libgraphqlparser import parser as _p
from tartiflette.types.exceptions.tartiflette import GraphQLSyntaxError

def _model_parse_to_json_ast(query):
    try:
        return json.dumps(gqlfront.parse(query)).encode()
    except gqlfront.GQLSyntaxError as e:
        raise GraphQLSyntaxError(str(e))
    except UnicodeDecodeError as e:
        raise GraphQLSyntaxError("1.1: invalid character")
_p._parse_to_json_ast = _model_parse_to_json_ast
