import sys, inspect, pkgutil, importlib
sys.path.insert(0, "/verif/probes")
import base
import tartiflette
from crosshair.condition_parser import Pep316Parser, AssertsParser, CompositeConditionParser
from crosshair.fnutil import FunctionInfo
from crosshair.options import AnalysisKind
found = {"pep": [], "asserts": []}
mods = [m.name for m in pkgutil.walk_packages(tartiflette.__path__, "tartiflette.")]
for mn in mods:
    try:
        mod = importlib.import_module(mn)
    except Exception as e:
        continue
    for name, obj in vars(mod).items():
        objs = []
        if inspect.isfunction(obj) and obj.__module__ == mn:
            objs.append((name, obj, mod))
        elif inspect.isclass(obj) and obj.__module__ == mn:
            for n2, o2 in vars(obj).items():
                if inspect.isfunction(o2):
                    objs.append((f"{name}.{n2}", o2, obj))
        for qn, fn, ctx in objs:
            for label, P in (("pep", Pep316Parser), ("asserts", AssertsParser)):
                try:
                    c = P().get_fn_conditions(FunctionInfo(ctx, fn.__name__, fn))
                except Exception as e:
                    c = None
                if c is not None and c.has_any():
                    found[label].append(f"{mn}.{qn}")
print(found)
