"""C11 — introspection describes exactly the schema that was supplied, however it is supplied.  (DESIGN §4 C11)"""
import os, shutil
from typing import Optional
from vf import env
from vf.env import pick, pickb, verdict, observe, safe, build, DictCache, VERIF
from vf.ob import obligation, shard, finding_open
from vf.ref.model import model_from_sdl, ABSENT
from vf.ref import introspect as I
from tartiflette import Resolver, Directive, Scalar, TypeResolver

META = {
    "bounds": "10 SDL models in up to 3 declaration orders (minimal; every kind once; wrappers to depth 3; defaults of every literal kind; `extend` of every kind + custom root names; custom directives / "
              "@deprecated / @nonIntrospectable; schema-level @nonIntrospectable; implementers declared before/after their interface; names starting with one underscore on every element kind; a directive-only `extend schema` followed by further extensions; one definition per file, files without trailing newline ending in a bare name / comment / string) x 4 ways of supplying the SDL (string, file, list of files, directory) through create_engine, + Engine()/cook() two-step instantiation for 3 models; "
              "`__type(name:)` argument symbolic (all strings); includeDeprecated absent/null/true/false",
    "outside": "SDL outside the 7 models (the lark grammar/transformers only ever see these concrete renderings: a finite catalogue); declared names themselves are concrete "
               "(bake inserts them into dicts, which realises a symbolic name)",
    "explanation": "Oracle: vf/ref/introspect.py computes the expected introspection from an independent SDL reader (vf/ref/model.py); default values compared as values after re-parsing.",
}

M1 = ["type Query { a: Int }"]
M2 = [
    '"""the node"""\ninterface Node { id: ID! }',
    "type A implements Node { id: ID! n: Int peer: Node col: Color }",
    "type B implements Node { id: ID! flag: Boolean }",
    "union U = A | B",
    '"""colours"""\nenum Color { RED\n"""g"""\nGREEN }',
    "scalar My",
    "input Inp { x: Int! y: [Int] }",
    'type Query { node(id: ID!): Node u: U\n"""doc of f"""\nf(i: Inp, m: My): String }',
    "type Mutation { set(v: Int): Int }",
    "type Subscription { tick: Int }",
]
M3 = [
    "type Query { a: [[[Int!]!]!]! b: [[Int]!] c(x: [[Int!]]!, y: [W!] = null): [W!]! }",
    "input W { l: [[String!]!]! m: [W!] }",
]
M4 = [
    "enum Color { RED GREEN }",
    'input Inp { x: Int! = 5 y: [Int] = [1, 2] c: Color = RED f: Float = 1.5 s: String = "str" b: Boolean = true n: Int = null inner: Inp = {x: 1, y: [3], c: GREEN} e: String = "" q: String = "a\\"b\\\\c" big: Float = 1e10 neg: Int = -3 id: ID = "i" l2: [[Int]] = [[1], [2, null]] }',
    'type Query { f(i: Int = 0, o: Inp = {x: 2}, l: [Color!]! = [RED], s: String = "d", none: Int): Int }',
]
M5 = [
    "schema { query: RootQ mutation: RootM }",
    "interface Node { id: ID! }",
    "type A implements Node { id: ID! }",
    "type B { x: Int }",
    "union U = A",
    "enum Color { RED }",
    "input Inp { x: Int }",
    "scalar My",
    "directive @tag(n: Int) on OBJECT | FIELD_DEFINITION | ENUM_VALUE | INPUT_FIELD_DEFINITION | UNION | ENUM | INTERFACE | INPUT_OBJECT | SCALAR",
    "type RootQ { node: Node u: U c(i: Inp): Color }",
    "type RootM { set: Int }",
    "extend type A { more: Int @tag(n: 1) }",
    "extend type B implements Node { id: ID! }",
    "extend interface Node { extra: String }",
    "extend type A { extra: String }",
    "extend type B { extra: String }",
    "extend union U = B",
    "extend enum Color { GREEN @tag }",
    "extend input Inp { y: [Int] = [1] }",
    "extend scalar My @tag(n: 2)",
]
M6 = [
    'directive @tag(n: Int = 3, s: String = "x", o: Inp = {x: 1}, l: [Int!]) on FIELD_DEFINITION | OBJECT | FIELD | ENUM_VALUE | ARGUMENT_DEFINITION | INPUT_FIELD_DEFINITION | QUERY | MUTATION | SUBSCRIPTION | FRAGMENT_DEFINITION | FRAGMENT_SPREAD | INLINE_FRAGMENT | SCHEMA | SCALAR | INTERFACE | UNION | ENUM | INPUT_OBJECT',
    '"""a doc"""\ndirective @plain on FIELD',
    "directive @plain2 on FIELD_DEFINITION | ENUM_VALUE",
    "input Inp { x: Int }",
    'enum Color { RED @deprecated(reason: "no red") GREEN @deprecated BLUE CYAN @deprecated(reason: "") PINK @deprecated(reason: null) TEAL @deprecated(reason: "t") @plain2 }',
    'type Query { old: Int @deprecated(reason: "use new") older: Int @deprecated blank: Int @deprecated(reason: "") nulled: Int @deprecated(reason: null) old2: Int @deprecated(reason: "r2") @tag hid2: Int @nonIntrospectable @tag hid3: Int @nonIntrospectable @deprecated old3: Int @tag(n: 2) @deprecated @plain2 new: Int hidden: Int @nonIntrospectable col: Color t(a: Int @tag): Int @tag(n: 1) }',
]
M7 = [
    "type Blob implements Shape { area: Float }",
    "type Circle { area: Float r: Int }",
    "type Query { s: Shape any: Any }",
    "extend type Circle implements Shape",
    "interface Shape { area: Float }",
    "type Square implements Shape & Sided { area: Float side: Int }",
    "union Any = Blob | Square",
    "interface Sided { side: Int }",
    "extend union Any = Circle",
]
# file boundaries: files without a trailing newline that end with a bare name, a comment, a string or a directive
M8 = [
    "type Query { a: Int m: My t: T }",
    "scalar My",
    "type T { x: Int }  # a trailing comment",
    "extend type Query { v: Int }",
    "enum E { A B }\nextend type Query { e: E } # last line is a comment",
    "union U = T",
    "extend type T { u: U }",
    'directive @tag(s: String = "end") on FIELD',
    "interface I { i: Int }",
]
# names starting with a single underscore (only `__` is reserved) on every kind of declared element; a schema extension that only adds a directive,
# followed by further extensions (which must still be merged)
M9 = [
    "directive @tag(n: Int) on SCHEMA | OBJECT",
    "type Query { a: Int _id: ID _: Int f(_a: Int = 1, i: _In): _T }",
    "type _T { _x: Int x_: Int }",
    "input _In { _f: Int = 2 f_: Int }",
    "enum _E { _V V_ }",
    "interface _I { _i: Int }",
    "type M { set: Int _set: Int }",
    "extend schema @tag(n: 1)",
    "extend type Query { b: Int e: _E }",
    "extend schema { mutation: M }",
    "extend type _T implements _I { _i: Int }",
]
M6S = ["directive @sx on SCHEMA", "schema @nonIntrospectable @sx { query: Query }", "type Query { a: Int b: Int @deprecated }"]      # a second schema directive WITHOUT any hook, written after
def _orders(chunks):
    """declaration order must not matter: original, reversed, rotated (extensions kept after everything else when reversed)"""
    base = [c for c in chunks if not c.startswith("extend")]; ext = [c for c in chunks if c.startswith("extend")]
    half = len(base) // 2
    return [chunks, base[::-1] + ext[::-1], base[half:] + base[:half] + ext]


MODELS = {"M1": M1, "M2": M2, "M3": M3, "M4": M4, "M5": M5, "M6": M6, "M7": M7, "M8": M8, "M9": M9, "M6S": M6S}
ONE_FILE_PER_CHUNK = {"M8"}
for _n in ("M2", "M5", "M7"):
    _o = _orders(MODELS[_n])
    MODELS[_n + "r"] = _o[1]; MODELS[_n + "h"] = _o[2]
MODES = ["str", "file", "files", "dir"]
TWO_STEP = [("M2", "init"), ("M2", "cook"), ("M5", "init"), ("M5", "cook"), ("M9", "cook")]      # Engine(...) + cook(...): the documented advanced instantiation (SDL as a string)
TMP = os.path.join(VERIF, ".build", "tmp", "c11_%d" % os.getpid())


class _Impl:
    pass


class _MyScalar:
    def coerce_output(self, v):
        return v

    def coerce_input(self, v):
        return v

    def parse_literal(self, ast):
        return getattr(ast, "value", None)


def supply(mname, mode):
    chunks = MODELS[mname]
    if mode == "str":
        return "\n".join(chunks)
    d = os.path.join(TMP, mname + "_" + mode)
    os.makedirs(d, exist_ok=True)
    if mode == "file":
        p = os.path.join(d, "schema.sdl")
        open(p, "w").write("\n".join(chunks))
        return p
    half = (len(chunks) + 1) // 2
    parts = [chunks[:half], chunks[half:]] if len(chunks) > 1 else [chunks]
    if mname in ONE_FILE_PER_CHUNK:
        parts = [[c] for c in chunks]
    if mode == "files":
        out = []
        for i, part in enumerate(parts):
            p = os.path.join(d, "part%d.sdl" % i)
            open(p, "w").write("\n".join(part))
            out.append(p)
        return out
    for i, part in enumerate(parts):
        open(os.path.join(d, "p%02d.%s" % (i, "sdl" if i % 2 == 0 else "graphql")), "w").write("\n".join(part))
    return d


ENG = {}
MODEL = {}
BUILD_ERRORS = {}
for _m in MODELS:
    MODEL[_m] = model_from_sdl("\n".join(MODELS[_m]))
    for _mode in MODES:
        _name = "c11_%s_%s" % (_m, _mode)
        for _d in MODEL[_m]["directives"]:
            Directive(_d, schema_name=_name)(_Impl)
        if "My" in MODEL[_m]["types"]:
            Scalar("My", schema_name=_name)(_MyScalar)
        ENG[(_m, _mode)] = build(supply(_m, _mode), _name, query_cache_decorator=DictCache())
for _m, _mode in TWO_STEP:
    _name = "c11_%s_%s" % (_m, _mode)
    for _d in MODEL[_m]["directives"]:
        Directive(_d, schema_name=_name)(_Impl)
    if "My" in MODEL[_m]["types"]:
        Scalar("My", schema_name=_name)(_MyScalar)
    ENG[(_m, _mode)] = env.build_two_step(supply(_m, "str"), _name, _mode, query_cache_decorator=DictCache())
shutil.rmtree(TMP, ignore_errors=True)


def full(m, mode, variables):
    return env.run(ENG[(m, mode)].execute(I.QUERY, variables=variables))


FULL = {}
for _k in ENG:
    if _k[0] != "M6S":
        FULL[_k] = {t["name"]: t for t in full(_k[0], _k[1], {"d": True})["data"]["__schema"]["types"]}

TYPEQ = "query T($n: String!) { __type(name: $n) { ...FT } }\n" + I.QUERY.split("\n", 5)[5] if False else None
TYPEQ = "query T($n: String!) { __type(name: $n) { ...FT } }\n" + "\n".join(l for l in I.QUERY.splitlines() if l.startswith("fragment") or l.startswith("          "))
TYPEQ = TYPEQ.replace("$d", "true")
for _k in ENG:
    env.run(ENG[_k].execute(TYPEQ, variables={"n": "Query"}))


SH = [{"m": m, "mode": mode} for m in MODELS if m != "M6S" for mode in MODES] + [{"m": m, "mode": mode} for m, mode in TWO_STEP]


@obligation(tier="quick", timeout=120, shards=SH,
            samples=[{"dep": 0}, {"dep": 2}],
            selectors=["dep: includeDeprecated absent / null / true / false", "shard: SDL model (6), way of supplying it (4)"],
            bounds="6 models x 4 supply modes x 4 includeDeprecated settings",
            note="the standard introspection query equals the expected introspection of the model: nothing declared missing, nothing beyond declarations and built-ins, kinds, wrappers, defaults as values, deprecation, hidden fields, roots, directives")
def c11_schema(dep: int) -> bool:
    """
    post: _
    """
    sh = shard()
    dep = pick(dep, 4)
    variables = [{}, {"d": None}, {"d": True}, {"d": False}][dep]
    # another engine of the process, whose schema declares same-named types (Query, A, B, Node, Color...) differently, is introspected first with the same
    # variables: what one schema answered must not show in the answer of another
    other = ("M1", "str") if sh["m"] not in ("M1",) else ("M5", "str")
    safe(lambda: full(other[0], other[1], dict(variables)))
    other2 = ("M2", "file") if not sh["m"].startswith("M2") else ("M7", "str")
    safe(lambda: full(other2[0], other2[1], dict(variables)))
    ok, r = safe(lambda: full(sh["m"], sh["mode"], dict(variables)))
    if not ok or r.get("errors") or not r.get("data"):
        observe(r)
        return verdict(False)
    try:
        got = I.normalise(r["data"]["__schema"])
    except Exception as e:
        observe("introspection result not well-formed (defaultValue is not a GraphQL literal?)", repr(e))
        return verdict(False)
    exp = I.expected(MODEL[sh["m"]], include_deprecated=(dep == 2))
    d = I.diff(got, exp)
    if d and dep == 1:
        # includeDeprecated: null — the specification only says what `true` means and the project's own tests pin "null includes";
        # either reading is accepted (withdrawn false alarm, DESIGN §9)
        d = I.diff(got, I.expected(MODEL[sh["m"]], include_deprecated=True))
    observe(d)
    return verdict(not d)


@obligation(tier="quick", timeout=120, shards=[{"m": m, "mode": mode} for m in ("M2", "M5", "M6", "M7") for mode in MODES],
            quick_shards=[0, 5, 10, 3, 12],
            samples=[{"n": "A"}, {"n": "Nope"}, {"n": ""}],
            symbolic=["n: str — the argument of __type(name:) (all strings)"], selectors=["shard: model, supply mode"],
            bounds="every string n",
            note="__type(name: n) is non-null exactly for declared/built-in (or meta) type names and then equals the entry in __schema.types; null for every other string")
def c11_type_by_name(n: str) -> bool:
    """
    post: _
    """
    sh = shard()
    k = (sh["m"], sh["mode"])
    ok, r = safe(lambda: env.run(ENG[k].execute(TYPEQ, variables={"n": n})))
    if not ok or r.get("errors"):
        observe(r)
        return verdict(False)
    t = r["data"]["__type"]
    names = list(FULL[k].keys())
    if t is None:
        for nm in names:
            if n == nm:
                return verdict(False)
        return verdict(True)
    for nm in names:
        if n == nm:
            return verdict(t == FULL[k][nm])
    for nm in I.META_TYPES:
        if n == nm:
            return verdict(t["name"] == nm)
    return verdict(False)


@obligation(tier="quick", timeout=60, samples=[{"mode": 0, "q": 0}],
            selectors=["mode: supply mode", "q: which introspection entry point"], bounds="schema-level @nonIntrospectable x 4 supply modes x 3 entry points",
            note="a schema marked @nonIntrospectable refuses introspection (__schema / __type answer null or an error, never the schema); ordinary fields still work")
def c11_schema_hidden(mode: int, q: int) -> bool:
    """
    post: _
    """
    mode = MODES[pick(mode, 4)]; q = pick(q, 3)
    text = ["{ __schema { queryType { name } types { name } } }", "{ __type(name: \"Query\") { name fields { name } } }", "{ a }"][q]
    ok, r = safe(lambda: env.run(ENG[("M6S", mode)].execute(text, initial_value={"a": 1})))
    observe(r)
    if not ok:
        return verdict(False)
    if q == 2:
        return verdict(r == {"data": {"a": 1}})
    d = r.get("data")
    leaked = d is not None and any(v is not None for v in d.values())
    return verdict(not leaked)


# ---- valid SDL must build: interface implementations that the spec allows ------------------------------------------
from vf.ref.validation import wrap, parse, valid_impl_field_type  # noqa: E402
from crosshair.tracers import NoTracing  # noqa: E402
import asyncio  # noqa: E402
from tartiflette import create_engine  # noqa: E402
VBASES = [("Int", "Int"), ("A", "N"), ("A", "U")]
VPRE = "type Query { a: Int }\ninterface N { id: ID }\ntype A implements N { id: ID }\ntype B { id: ID }\nunion U = A\n"
VCOUNT = [0]


@obligation(tier="quick", timeout=300, shards=[{"base": b} for b in range(len(VBASES))],
            samples=[{"fb": 0, "ib": 0}, {"fb": 1, "ib": 0}],
            selectors=["fb: wrappers of the object's field type", "ib: wrappers of the interface's field type", "shard: base type pair (same scalar, object/interface, object/union)"],
            bounds="8 x 8 wrappings x 3 base pairs", 
            note="'for any valid SDL the engine builds': an object field type that IS a valid implementation of the interface field type (spec IsValidImplementationFieldType) must build")
def c11_valid_interface_impl(fb: int, ib: int) -> bool:
    """
    post: _
    """
    fbase, ibase = VBASES[shard()["base"]]
    fb = pick(fb, 8); ib = pick(ib, 8)
    if (fb & 4 and not fb & 2) or (ib & 4 and not ib & 2):
        return True
    ft, it = wrap(fbase, fb), wrap(ibase, ib)
    if not valid_impl_field_type(parse(ft), parse(it)):
        return True          # invalid: C12's subject
    with NoTracing():
        VCOUNT[0] += 1
        try:
            asyncio.run(create_engine(VPRE + "interface I { x: %s }\ntype T implements I { x: %s }" % (it, ft), schema_name="c11v_%d" % VCOUNT[0], json_loader=env.identity))
            ok = True
        except Exception as e:
            observe(it, ft, repr(e)[:300])
            ok = False
    return verdict(ok)
