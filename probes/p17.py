import sys; sys.path.insert(0, "/verif/probes")
from typing import Optional, List
import base, chplug, miniloop2, gqlfront
from base import *
from crosshair.tracers import NoTracing
LOG = []
@Resolver("Query.probe", schema_name="p17")
async def rp(p, a, c, i):
    LOG.append(dict(a)); return "ok"
SDL = """
input Inp { x: Int xs: [Int] s: String }
type Query { probe(i: Int, ni: Int! = 1, li: [Int], lni: [Int!], s: String, ls: [String], o: Inp): String }
"""
ENG = build(SDL, "p17", query_cache_decorator=None)
ARGS = [("i", "Int"), ("ni", "Int!"), ("li", "[Int]"), ("lni", "[Int!]"), ("s", "String"), ("ls", "[String]")]
VARTYPES = ["Int", "Int!", "[Int]", "[Int!]", "[Int]!", "String", "String!", "[String]"]

def is_value_of(t, v):
    if t.endswith("!"):
        return v is not None and is_value_of(t[:-1], v)
    if v is None:
        return True
    if t.startswith("["):
        return isinstance(v, list) and all(is_value_of(t[1:-1], x) for x in v)
    if t == "Int":
        return isinstance(v, int) and not isinstance(v, bool)
    if t == "String":
        return isinstance(v, str)
    raise AssertionError(t)

def pick(x, n):
    for j in range(n - 1):
        if x == j: return j
    return n - 1

def value_for(vt, n, s):
    base_ = vt.replace("!", "").replace("[", "").replace("]", "")
    leaf = n if base_ == "Int" else s
    return [leaf] if "[" in vt else leaf

def c05_vartype(ai: int, vi: int, where: int, n: int, s: str) -> bool:
    """
    pre: 0 <= ai < 7 and 0 <= vi < 8 and 0 <= where < 3 and -5 <= n <= 5 and len(s) <= 1
    post: _
    """
    ai = pick(ai, 7); vi = pick(vi, 8); where = pick(where, 3)
    vt = VARTYPES[vi]
    with NoTracing():
        if ai < 6:
            an, at = ARGS[ai]
            if where == 0:
                q = "query($v: %s) { probe(%s: $v) }" % (vt, an)
            elif where == 1:
                if not at.startswith("["):
                    return True
                q = "query($v: %s) { probe(%s: [$v]) }" % (vt, an); at = at[1:-1] if not at.endswith("!") else at[1:-2]
            else:
                return True
        else:
            an, at = "o", None
            if where == 0:
                q = "query($v: %s) { probe(o: {x: $v}) }" % vt; inner = ("x", "Int")
            elif where == 1:
                q = "query($v: %s) { probe(o: {xs: [$v]}) }" % vt; inner = ("xs", "Int")
            else:
                q = "query($v: %s) { probe(o: {s: $v}) }" % vt; inner = ("s", "String")
        ast = gqlfront.parse(q)
    val = value_for(vt, n, s)
    old = base._p._parse_to_json_ast
    base._p._parse_to_json_ast = lambda _q: ast
    del LOG[:]
    try:
        resp = miniloop2.MiniLoop().run_until_complete(ENG.execute(q, variables={"v": val}))
    except Exception:
        return False
    finally:
        base._p._parse_to_json_ast = old
    if not LOG:
        return True            # refused or field failed: nothing delivered
    got = LOG[0]
    if ai < 6:
        if an not in got:
            return True
        d = got[an]
        if where == 1:
            return isinstance(d, list) and all(is_value_of(at, x) for x in d)
        return is_value_of(at, d)
    o = got.get("o")
    if not isinstance(o, dict) or inner[0] not in o:
        return True
    d = o[inner[0]]
    if inner[0] == "xs":
        return isinstance(d, list) and all(is_value_of("Int", x) for x in d)
    return is_value_of(inner[1], d)
