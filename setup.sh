#!/bin/sh
# Offline, idempotent: overlay venv (/venv site-packages + crosshair-tool/z3-solver from the wheelhouse)
# and the libgraphqlparser stub (.so absent in this sandbox; the C parser is modelled by vf/gqlfront.py).
set -e
cd "$(dirname "$0")"
V=.venv
if [ ! -x $V/bin/python ] || ! $V/bin/python -c "import crosshair, z3, tartiflette_deps_ok" 2>/dev/null; then
  if [ ! -x $V/bin/python ]; then /venv/bin/python -m venv $V; fi
  SP=$($V/bin/python -c "import sysconfig; print(sysconfig.get_paths()['purelib'])")
  printf "import site; site.addsitedir('/venv/lib/python3.12/site-packages')\n" > "$SP/_overlay.pth"
  if ! $V/bin/python -c "import crosshair, z3" 2>/dev/null; then
    PIP_NO_INDEX=1 $V/bin/python -m pip install -q --no-index --find-links /opt/veriftools/wheels crosshair-tool z3-solver
  fi
  : > "$SP/tartiflette_deps_ok.py"
fi
mkdir -p .build/lib evidence/replays
if [ ! -f .build/lib/libgraphqlparser.so ] || [ vf/ffi/stub.c -nt .build/lib/libgraphqlparser.so ]; then
  gcc -shared -fPIC -O1 -o .build/lib/libgraphqlparser.so vf/ffi/stub.c
fi
echo "setup ok"
