"""One obligation (function x shard) in one process.

  python -m vf.worker check  <module> <fn> --shard JSON --timeout T     -> JSON verdict on the last stdout line
  python -m vf.worker replay <replay.json>                              -> exit 0 holds / 1 reproduces / 2 harness error
"""
import sys, os, json, time, argparse, traceback, ast, importlib, threading

T0 = time.time()


def _emit(d):
    d["wall_s"] = round(time.time() - T0, 3)
    sys.stdout.write("\n@@VERDICT " + json.dumps(d, default=repr) + "\n")
    sys.stdout.flush()


def _import(modname):
    """import the harness; a tartiflette failure while building the catalogue engines is a finding, not a crash"""
    try:
        from vf import env  # noqa
    except Exception:
        return None, {"state": "ENV_FAIL", "detail": traceback.format_exc()}
    try:
        return importlib.import_module(modname), None
    except Exception:
        return None, {"state": "IMPORT_FAIL", "detail": traceback.format_exc()}


def _find(mod, fn):
    from vf import ob
    for o in ob.obligations(mod.__name__):
        if o.name == fn:
            return o
    raise SystemExit(f"no obligation {fn} in {mod.__name__}")


def parse_cex(message, fname):
    """'false when calling f(a=1, b=None) (which returns ...)' -> {'a': 1, 'b': None}"""
    i = message.find(fname + "(")
    if i < 0:
        return None
    src = message[i:]
    # cut at the matching parenthesis
    depth = 0; end = None; instr = None; k = 0
    while k < len(src):
        c = src[k]
        if instr:
            if c == "\\":
                k += 1
            elif c == instr:
                instr = None
        elif c in "\"'":
            instr = c
        elif c in "([{":
            depth += 1
        elif c in ")]}":
            depth -= 1
            if depth == 0:
                end = k + 1
                break
        k += 1
    if end is None:
        return None
    try:
        call = ast.parse(src[:end], mode="eval").body
        out = {}
        import inspect
        for kw in call.keywords:
            out[kw.arg] = ast.literal_eval(kw.value)
        return out, [ast.literal_eval(a) for a in call.args]
    except Exception:
        return None


def _norm(s):
    import re
    return re.sub(r"0x[0-9a-f]{6,}", "0x?", s)


def _functions_entered(fn, kwargs):
    seen = set()

    def prof(frame, event, arg):
        if event == "call":
            g = frame.f_globals.get("__name__", "")
            if g.startswith("tartiflette"):
                seen.add(g + "." + frame.f_code.co_qualname)
    sys.setprofile(prof)
    try:
        r = fn(**kwargs)
    finally:
        sys.setprofile(None)
    return r, sorted(seen)


def cmd_check(a):
    mod, err = _import(a.module)
    if err:
        _emit(err); return
    from vf import ob as obmod, env, chplugin
    o = _find(mod, a.fn)
    if getattr(mod, "META", {}).get("symstr_format") == "symbolic":
        chplugin.SYMSTR_CONST = False
    shard = json.loads(a.shard)
    obmod.set_shard(shard)
    out = {"module": a.module, "fn": a.fn, "shard": shard, "twin": env.TWIN}

    # ---- self-test on the concrete samples: plain run, profile, traced run with the same concrete arguments
    funcs = []
    st = []
    if not env.TWIN:
        from crosshair.core import standalone_statespace
        from crosshair.tracers import NoTracing
        # every concrete sample (boundary values included) first runs plainly: a sample that violates the postcondition is a counterexample in its
        # own right (it is replayed like a solver model) — the symbolic search below does not depend on it, but code that makes the solver slow
        # (bit tricks, C-level calls) must not hide a boundary defect behind an inconclusive verdict
        for s in o.samples:
            try:
                r0 = o.fn(**dict(s))
            except Exception:
                r0 = True        # harness/engine exceptions are the business of the traced self-test and of the search
            if r0 is False:
                out["state"] = "POST_FAIL"; out["args"] = s; out["via"] = "concrete sample"
                out["message"] = "a concrete sample of the obligation violates its postcondition"
                out["paths"] = 0; out["queries"] = 0; out["solver_s"] = 0.0
                _emit(out); return
        for s in o.samples[:3]:
            try:
                env.OBS_ON = True; del env.OBS[:]
                r1, f = _functions_entered(o.fn, dict(s))
                funcs = sorted(set(funcs) | set(f))
                obs1 = _norm(repr(env.OBS))
                del env.OBS[:]
                # the same sample once more, still untraced: identical input must give an identical observation
                r1b = o.fn(**dict(s))
                obs1b = _norm(repr(env.OBS))
                del env.OBS[:]
                if bool(r1b) != bool(r1) or obs1b != obs1:
                    out["state"] = "REPEAT_DIFF"; out["args"] = s
                    out["detail"] = "first run: %s | second run: %s" % (obs1[:1500], obs1b[:1500])
                    _emit(out); return
                with standalone_statespace:
                    r2 = o.fn(**dict(s))
                    with NoTracing():
                        obs2 = _norm(repr(env.OBS))
                st.append({"sample": s, "plain": bool(r1), "traced": bool(r2), "equal": bool(r1) == bool(r2) and obs1 == obs2})
                if obs1 != obs2:
                    st[-1]["plain_obs"] = obs1[:2000]; st[-1]["traced_obs"] = obs2[:2000]
            except Exception:
                st.append({"sample": s, "error": traceback.format_exc()[-3000:], "equal": False})
            finally:
                env.OBS_ON = False; del env.OBS[:]
        # history self-test: sample 0, the other samples, sample 0 again — still untraced; the first and the last observation of
        # sample 0 must be identical (process-wide state left behind by other inputs must not change an answer)
        if len(o.samples) >= 2 and all(x.get("equal") for x in st):
            try:
                env.OBS_ON = True; del env.OBS[:]
                ra = o.fn(**dict(o.samples[0])); oa = _norm(repr(env.OBS)); del env.OBS[:]
                for other in o.samples[1:3]:
                    o.fn(**dict(other))
                del env.OBS[:]
                rb = o.fn(**dict(o.samples[0])); ob_ = _norm(repr(env.OBS)); del env.OBS[:]
                if bool(ra) != bool(rb) or oa != ob_:
                    out["state"] = "REPEAT_DIFF"; out["args"] = o.samples[0]
                    out["sequence"] = [o.samples[0]] + list(o.samples[1:3]) + [o.samples[0]]
                    out["detail"] = "sample 0 before / after the other samples: %s | %s" % (oa[:1500], ob_[:1500])
                    out["selftest"] = st
                    _emit(out); return
            except Exception:
                pass
            finally:
                env.OBS_ON = False; del env.OBS[:]
        out["selftest"] = st
        out["functions_encoded"] = funcs
        if any(not x["equal"] for x in st):
            out["state"] = "TRACE_MISMATCH"
            _emit(out); return

    # ---- instrumentation: iterations (= paths) and solver time
    import z3
    stats = {"paths": 0, "queries": 0, "solver_s": 0.0}
    import crosshair.statespace as _ss
    _orig_init = _ss.StateSpace.__init__

    def _init(self, *aa, **kw):
        stats["paths"] += 1
        return _orig_init(self, *aa, **kw)
    _ss.StateSpace.__init__ = _init
    _orig_check = z3.Solver.check

    def _check(self, *aa):
        t = time.perf_counter()
        try:
            return _orig_check(self, *aa)
        finally:
            stats["solver_s"] += time.perf_counter() - t
            stats["queries"] += 1
    z3.Solver.check = _check

    from crosshair.core_and_libs import analyze_function, run_checkables, MessageType
    from crosshair.options import AnalysisOptionSet, AnalysisKind
    opts = AnalysisOptionSet(per_condition_timeout=float(a.timeout), per_path_timeout=float(a.path_timeout),
                             analysis_kind=[AnalysisKind.PEP316], report_all=True, report_verbose=False,
                             max_uninteresting_iterations=sys.maxsize)
    msgs = []
    if os.environ.get("VF_DEBUG_OBS") == "1":
        env.OBS_ON = True
    try:
        for m in run_checkables(analyze_function(o.fn, opts)):
            msgs.append(m)
    except Exception:
        out["state"] = "CH_ERROR"; out["detail"] = traceback.format_exc()[-3000:]
        out.update(stats); _emit(out); return
    out.update(stats)
    out["solver_s"] = round(stats["solver_s"], 3)
    if os.environ.get("VF_DEBUG_OBS") == "1":
        sys.stderr.write("LAST OBS: %s\n" % _norm(repr(env.OBS[-6:]))[:6000])
    if not msgs:
        out["state"] = "NO_MESSAGE"
        _emit(out); return
    # worst message wins
    order = ["POST_FAIL", "EXEC_ERR", "PRE_UNSAT", "POST_ERR", "SYNTAX_ERR", "IMPORT_ERR", "CANNOT_CONFIRM", "CONFIRMED"]
    msgs.sort(key=lambda m: order.index(m.state.name) if m.state.name in order else 0)
    m = msgs[0]
    out["state"] = m.state.name
    out["message"] = m.message[:4000]
    if m.state.name in ("POST_FAIL", "EXEC_ERR"):
        cx = parse_cex(m.message, a.fn)
        if cx:
            kw, pos = cx
            if pos:
                import inspect
                names = list(inspect.signature(o.fn).parameters)
                for n, v in zip(names, pos):
                    kw.setdefault(n, v)
            out["args"] = kw
        if m.state.name == "EXEC_ERR":
            out["traceback"] = (m.traceback or "")[-3000:]
    _emit(out)


def cmd_replay(a):
    rp = json.load(open(a.file))
    os.environ["VF_NO_SKIP"] = "1" if rp.get("no_skip") else os.environ.get("VF_NO_SKIP", "0")
    mod, err = _import(rp["module"])
    if rp.get("import_only"):
        if err:
            print(err["detail"][-3000:])
            print("REPLAY: reproduces on the real code: building the catalogue engines of %s raises" % rp["module"])
            sys.exit(1)
        print("REPLAY: holds (the harness imports)")
        sys.exit(0)
    if err:
        # a catalogue engine that cannot be built: the real code raising on valid SDL
        print(err["detail"])
        print("REPLAY: harness import fails:", err["state"])
        sys.exit(1 if err["state"] == "IMPORT_FAIL" else 2)
    from vf import ob as obmod, env
    o = _find(mod, rp["fn"])
    obmod.set_shard(rp.get("shard") or {})
    env.OBS_ON = True
    env.EXPLAIN = True
    if rp.get("repeat"):
        try:
            seq = rp.get("sequence") or [rp["args"], rp["args"]]
            r1 = o.fn(**seq[0]); o1 = _norm(repr(env.OBS)); del env.OBS[:]
            for mid in seq[1:-1]:
                o.fn(**mid)
            del env.OBS[:]
            r2 = o.fn(**seq[-1]); o2 = _norm(repr(env.OBS))
        except Exception:
            traceback.print_exc(); print("REPLAY: obligation raised (harness error)"); sys.exit(2)
        if bool(r1) != bool(r2) or o1 != o2:
            print("  first run :", o1[:1500]); print("  second run:", o2[:1500])
            print("REPLAY: reproduces on the real code: the same request sequence, repeated in one process, is answered differently: %s%s shard=%s" % (rp["fn"], rp["args"], rp.get("shard")))
            sys.exit(1)
        print("REPLAY: holds (repeating the sample gives the same observation)"); sys.exit(0)
    try:
        r = o.fn(**rp["args"])
    except Exception:
        traceback.print_exc()
        print("REPLAY: obligation raised (harness error)")
        sys.exit(2)
    for x in env.OBS:
        print("  obs:", x)
    if r:
        print("REPLAY: holds (does not reproduce)")
        sys.exit(0)
    print("REPLAY: reproduces on the real code: %s%s shard=%s" % (rp["fn"], rp["args"], rp.get("shard")))
    sys.exit(1)


def main():
    p = argparse.ArgumentParser()
    sp = p.add_subparsers(dest="cmd")
    c = sp.add_parser("check")
    c.add_argument("module"); c.add_argument("fn"); c.add_argument("--shard", default="{}")
    c.add_argument("--timeout", default="90"); c.add_argument("--path-timeout", dest="path_timeout", default="30")
    r = sp.add_parser("replay")
    r.add_argument("file")
    a = p.parse_args()
    if a.cmd == "check":
        cmd_check(a)
    else:
        cmd_replay(a)


if __name__ == "__main__":
    main()
