"""C15 — concurrent requests on one engine do not influence each other; later requests behave as on a fresh engine.
(DESIGN §4 C15)"""
import asyncio
from typing import Optional
from vf import env, miniloop, world
from vf.env import pick, pickb, verdict, observe, safe, build, DictCache
from vf.ob import obligation, shard, finding_open
from tartiflette import TartifletteError

META = {
    "bounds": "2-3 requests in flight on one engine (same and different documents from a pool of 10 incl. two refused ones and two that wait on one application-wide awaitable, per-request variables/context: unbounded ints, Booleans), <= 2 gated resolvers "
              "per request, every completion order across the requests (<= 90), per-request fault selector; then a probe request compared with a never-shared engine",
    "outside": "more than 3 concurrent requests; more than 2 suspending resolvers per request",
    "explanation": "Each response of the concurrent run must equal the response of the same request run alone (FIFO) on the same engine; the shared cached document and the schema must stay read-only.",
}


class MyErr(TartifletteError):
    pass


MODULE_ERR = [None]       # one error instance shared by every request of a run (what a module-level `ERR = MyErr(...)` gives an application)
LOG = []


SHARED = {}


async def shared_wait(key):
    """an application-wide awaitable (a dataloader's future for a key): every resolver of every request that asks for the key awaits the SAME future"""
    fut = SHARED.get(key)
    if fut is None:
        fut = asyncio.get_running_loop().gate(("shared", key))
        SHARED[key] = fut
    await fut


async def cresolver(parent, args, ctx, info):
    p = tuple(info.path.as_list())
    LOG.append((ctx["id"], p, args))
    if p in ctx.get("shared", ()):
        await shared_wait("dl")
    if p in ctx["gates"]:
        await miniloop.gate((ctx["id"], p))
    f = ctx["faults"].get(p)
    if f == 1:
        raise ValueError("boom %s" % ctx["id"])
    if f == 2:
        raise MyErr("user %s" % ctx["id"], extensions={"req": ctx["id"]})
    if f == 3:
        raise MODULE_ERR[0]
    if info.field_name == "echoInt":
        return args.get("v")
    if info.field_name == "whoami":
        return ctx["id"]
    return world.read(parent, info.field_name)


SDL = world.sdl(0).replace("echoInt(v: Int): Int", "echoInt(v: Int): Int whoami: String")
from tartiflette import Scalar  # noqa: E402
for _n in ("c15", "c15_fresh"):
    Scalar("My", schema_name=_n)(world.MyScalar)
async def annotating_coercer(exception, error):
    """the shape of the documented example: the coercer annotates the error (in place) — here it counts how often THIS error dict
    has been through a coercer, which must always be once"""
    ext = error.get("extensions")
    if ext is not None:
        ext["coerced_times"] = ext.get("coerced_times", 0) + 1
    else:
        error["extensions"] = {"coerced_times": 1}
    return error


ENG = build(SDL, "c15", custom_default_resolver=cresolver, error_coercer=annotating_coercer)   # default lru cache: the parsed documents (and their validation errors) are shared between requests
Scalar("My", schema_name="c15_seq")(world.MyScalar)
ENG_SEQ = build(SDL, "c15_seq", custom_default_resolver=cresolver, error_coercer=annotating_coercer, coerce_list_concurrently=False, coerce_parent_concurrently=False)
FRESH = build(SDL, "c15_fresh", custom_default_resolver=cresolver, query_cache_decorator=None, error_coercer=annotating_coercer)
POOL = [
    ("query A($v: Int) { echoInt(v: $v) whoami n }", [("echoInt",), ("n",)]),
    ("query B($s: Boolean!) { mid { n ...F } whoami } fragment F on Mid { leaf @skip(if: $s) { n } }", [("mid",), ("mid", "n")]),
    ("query C($s: Boolean!) { mids { ... on Mid { leaves @include(if: $s) { n } } n } nn }", [("mids",), ("nn",)]),
    ("{ mid { leaf { n } } nn whoami }", [("mid", "leaf", "n"), ("nn",)]),
    ("query A($v: Int) { echoInt(v: $v) } query B { whoami }", [("echoInt",), ("whoami",)]),
    ("{ nope whoami }", []),                                   # refused by validation: the errors live with the cached document
    ("{ ...UF } fragment UF on Query { n ...EX } fragment EX on Query { nn ...UF }", []),        # refused: fragment cycle
    ("{ mid { n } ...UF } fragment UF on Query { ...EX whoami } fragment EX on Query { nn }", [("nn",)]),   # valid, same fragment names as the cyclic one
    ("{ whoami nn n }", [("nn",)]),          # `whoami` waits on the application-wide awaitable; `nn` is the non-null field that may fail
    ("{ n whoami }", []),                    # another request waiting on the same awaitable
]
SHARED_AT = {8: {("whoami",)}, 9: {("whoami",)}}
REFUSED_DOCS = (5, 6)
LEAF = {"n": 3}
MID = {"n": 2, "leaf": LEAF, "leaves": [LEAF, {"n": 4}]}
DATA = {"n": 1, "nn": 4, "mid": MID, "mids": [MID, {"n": 5, "leaves": []}]}
import copy  # noqa: E402
PRISTINE = copy.deepcopy(DATA)
CUR = [DATA]       # the application's data of the current run: objects (and lists) the resolvers hand out are shared by all requests of the run


def fresh_data():
    CUR[0] = copy.deepcopy(PRISTINE)
    return CUR[0]


def request(i, doc, v, s, fault, opsel, ng=2):
    q, gates = POOL[doc]
    gates = gates[-ng:]
    faults = {}
    if fault and gates:
        faults[gates[-1]] = fault
    ctx = {"id": "r%d" % i, "gates": set(gates), "faults": faults, "shared": SHARED_AT.get(doc, ())}
    variables = {"v": v, "s": s}
    op = None
    if doc == 4:
        op = "A" if opsel else "B"
    if doc in REFUSED_DOCS:
        variables = {}
    elif doc in (0, 4):
        variables = {"v": v}
    elif doc in (1, 2):
        variables = {"s": s}
    else:
        variables = {}
    return q, variables, ctx, op


def run_one(eng, req, chooser=None):
    q, variables, ctx, op = req
    return env.run(eng.execute(q, variables=dict(variables), context=ctx, operation_name=op, initial_value=CUR[0]), chooser=chooser)


def norm(r):
    """responses compared without the order of sibling errors (the order errors complete in is schedule-dependent by nature)"""
    if not isinstance(r, dict):
        return r
    errs = r.get("errors")
    return (r.get("data"), None if errs is None else sorted((repr(e.get("path")), e.get("message"), repr(e.get("extensions"))) for e in errs))


for _d in range(len(POOL)):
    for _e in (ENG, ENG_SEQ, FRESH):
        SHARED.clear()
        run_one(_e, request(0, _d, 1, True, 0, True))


def is_f7(faults):
    """known finding F7: located_error stores path/locations on the raised exception *instance*; an instance raised by more than
    one request (module-level error object) carries the first request's path into the others"""
    return sum(1 for f in faults if f == 3) >= 2


PAIRS = [(0, 0), (1, 1), (2, 2), (0, 3), (4, 4), (1, 3), (2, 1), (3, 3), (5, 5), (5, 0), (6, 7), (7, 6), (8, 9), (9, 8)]     # (3, 3): byte-identical requests that differ only by their context
TRIPLES = [(0, 0, 3), (1, 1, 1), (4, 0, 1)]


FAULTS = [(0, 0), (1, 0), (2, 1), (0, 2), (3, 0), (3, 3)]
SH15 = [{"docs": list(p), "f": list(f), "ng": ng} for ng in (1, 2) for p in PAIRS for f in FAULTS] + [{"docs": list(t), "f": list(f), "ng": 1} for t in TRIPLES for f in FAULTS[:3]]
# the same on an engine that coerces lists and parents sequentially (documents with lists)
SH15 += [{"docs": list(p), "f": list(f), "ng": 1, "seq": True} for p in ((2, 2), (2, 1), (1, 3), (2, 0)) for f in ((0, 0), (1, 0))]
QUICK15 = [i for i, s in enumerate(SH15) if s.get("seq") and s["f"] == [0, 0] and s["docs"] in ([2, 2], [2, 1])] + [i for i, s in enumerate(SH15) if not s.get("seq") and s["ng"] == 1 and len(s["docs"]) == 2 and ((s["f"] == [0, 0] and s["docs"] in ([0, 0], [1, 1], [2, 2], [4, 4], [0, 3], [3, 3], [5, 5], [5, 0], [6, 7], [7, 6])) or (s["docs"] == [0, 3] and s["f"] in ([2, 1], [3, 3])) or (s["docs"] == [1, 3] and s["f"] == [1, 0]) or (s["docs"] == [8, 9] and s["f"] in ([1, 0], [0, 0])) or (s["docs"] == [9, 8] and s["f"] == [0, 2]))]


@obligation(tier="quick", timeout=300, thorough_timeout=1500, shards=SH15, quick_shards=QUICK15,
            samples=[{"c0": 0, "c1": 0, "c2": 0, "c3": 0, "c4": 0, "c5": 0, "v0": 1, "v1": 2, "s0": True, "s1": False, "f0": 0, "f1": 0},
                     {"c0": 1, "c1": 2, "c2": 0, "c3": 1, "c4": 0, "c5": 0, "v0": 2**31, "v1": -1, "s0": False, "s1": True, "f0": 2, "f1": 1}],
            symbolic=["c0..c5: completion order of the pending resolvers across all requests", "v0, v1: int variables per request (unbounded)", "s0, s1: Boolean variables per request"],
            selectors=["shard: which documents are in flight; per-request fault (none / raise / raise a TartifletteError subclass / raise a module-level error instance)"],
            bounds="2-3 requests, <= 2 gates each", findings=["F7"],
            note="each concurrent response == its solo response on the same engine; a probe request afterwards == its response on a never-shared uncached engine")
def c15_concurrent(c0: int, c1: int, c2: int, c3: int, c4: int, c5: int, v0: int, v1: int, s0: bool, s1: bool, f0: int, f1: int) -> bool:
    """
    post: _
    """
    docs = shard()["docs"]
    f0, f1 = shard()["f"]
    if finding_open("F7") and is_f7([f0, f1]):
        return True
    vs = [v0, v1, 7]; ss = [pickb(s0), pickb(s1), True]; fs = [f0, f1, 0]
    reqs = [request(i, d, vs[i], ss[i], fs[i], ss[i], shard().get("ng", 2)) for i, d in enumerate(docs)]
    cs = [c0, c1, c2, c3, c4, c5]
    k = [0]
    MODULE_ERR[0] = MyErr("module-level", extensions={"code": 1})
    eng = ENG_SEQ if shard().get("seq") else ENG
    data = fresh_data()
    SHARED.clear()

    def chooser(n):
        x = cs[k[0]] if k[0] < len(cs) else 0
        k[0] += 1
        return pick(x, n)

    async def together():
        return await asyncio.gather(*[eng.execute(q, variables=dict(va), context=ctx, operation_name=op, initial_value=data) for q, va, ctx, op in reqs])
    del LOG[:]
    loop = miniloop.MiniLoop(chooser=chooser)
    ok, got = safe(lambda: loop.run_until_complete(together()))
    observe(got, loop.releases)
    runlog = list(LOG)
    if not ok:
        return verdict(False)
    for i, req in enumerate(reqs):
        SHARED.clear()
        ok2, solo = safe(lambda: run_one(eng, req))
        observe(("solo", i, solo))
        if not ok2 or norm(got[i]) != norm(solo):
            return verdict(False)
        # independent of any engine run: a refused document answers errors only; a valid one without an injected failure answers data and no errors
        if docs[i] in REFUSED_DOCS:
            if got[i].get("data") is not None or not got[i].get("errors"):
                return verdict(False)
        elif not req[2]["faults"] and not (docs[i] in (0, 4) and not (-2 ** 31 <= vs[i] < 2 ** 31)):
            if got[i].get("data") is None or got[i].get("errors"):
                return verdict(False)
        # an injected failure is reported at its own position, in its own request
        for fp in req[2]["faults"]:
            ran = any(e[0] == req[2]["id"] and e[1] == fp for e in runlog)
            if ran and not any(e.get("path") == list(fp) for e in got[i].get("errors") or []):
                return verdict(False)
    # afterwards: a probe request behaves as on an engine that never saw the traffic
    probe = request(9, docs[0], 5, False, 0, True)
    SHARED.clear()
    ok3, p1 = safe(lambda: run_one(eng, probe))
    # the application's own objects (what the resolvers returned, lists included) are exactly as before the traffic
    intact = data == PRISTINE
    fresh_data()
    SHARED.clear()
    ok4, p2 = safe(lambda: run_one(FRESH, probe))
    observe(("probe", p1, p2, intact))
    return verdict(intact and ok3 and ok4 and norm(p1) == norm(p2) and not loop.pending and all(t.done() for t in loop.tasks))


# ---- a schema marked @nonIntrospectable, requests in flight together: the refusal of introspection does not depend on what else is running -------
SDL_H = "schema @nonIntrospectable { query: Query }\ntype Query { whoami: String n: Int gate: Int }\n"
ENG_H = build(SDL_H, "c15_h", custom_default_resolver=cresolver, coerce_parent_concurrently=False, query_cache_decorator=DictCache())
H_DOCS = [("{ n whoami }", [("n",)]), ("{ gate __schema { queryType { name } } }", [("gate",)]), ("{ gate __type(name: \"Query\") { name } whoami }", [("gate",)]), ("{ gate n }", [("gate",), ("n",)])]
H_DATA = {"n": 1, "gate": 2}
for _q, _g in H_DOCS:
    env.run(ENG_H.execute(_q, context={"id": "w", "gates": set(), "faults": {}}, initial_value=H_DATA))


def _leaks(r):
    d = r.get("data") or {}
    return bool(d.get("__schema")) or bool(d.get("__type"))


@obligation(tier="quick", timeout=200, shards=[{"docs": list(p)} for p in ((0, 1), (1, 0), (0, 2), (3, 1), (1, 2), (0, 1, 2))],
            samples=[{"c0": 0, "c1": 0, "c2": 0, "c3": 0}, {"c0": 1, "c1": 1, "c2": 0, "c3": 1}],
            symbolic=["c0..c3: completion order of the pending resolvers across the requests"],
            selectors=["shard: which requests are in flight together (plain / introspecting through __schema / through __type), 2-3 requests"],
            bounds="<= 3 requests, <= 4 gated resolvers, every completion order",
            note="on a schema marked @nonIntrospectable every request, whatever completes around it, answers what it answers alone: introspection stays refused (never any __schema / __type data), plain fields are served")
def c15_hidden(c0: int, c1: int, c2: int, c3: int) -> bool:
    """
    post: _
    """
    docs = shard()["docs"]
    reqs = []
    for i, d in enumerate(docs):
        q, gates = H_DOCS[d]
        reqs.append((q, {"id": "h%d" % i, "gates": set(gates), "faults": {}}))
    cs = [c0, c1, c2, c3]
    k = [0]

    def chooser(n):
        x = cs[k[0]] if k[0] < len(cs) else 0
        k[0] += 1
        return pick(x, n)

    async def together():
        return await asyncio.gather(*[ENG_H.execute(q, context=ctx, initial_value=H_DATA) for q, ctx in reqs])
    loop = miniloop.MiniLoop(chooser=chooser)
    ok, got = safe(lambda: loop.run_until_complete(together()))
    observe(got, loop.releases)
    if not ok:
        return verdict(False)
    for i, (q, ctx) in enumerate(reqs):
        ok2, solo = safe(lambda: env.run(ENG_H.execute(q, context=ctx, initial_value=H_DATA)))
        observe(("solo", i, solo))
        if not ok2 or norm(got[i]) != norm(solo):
            return verdict(False)
        if _leaks(got[i]) or _leaks(solo):
            return verdict(False)
        if docs[i] in (0, 3) and (got[i].get("errors") or got[i].get("data") is None):
            return verdict(False)
    return verdict(not loop.pending and all(t.done() for t in loop.tasks))
