"""Structural conformance of a response's `data` to (schema model, document, variables): exactly the selected
response keys in collection order, lists where lists are declared, no null at a non-null position, leaves of the
scalar's wire type, enum values among the declared ones, abstract positions completed as one possible type.
Independent of tartiflette (uses the reference CollectFields)."""
import math
from vf.ref.execute import Ref
from vf.ref.model import is_nn, is_list
from vf.ref import coerce as C


def leaf_ok(m, t, v):
    if t == "Int":
        if isinstance(v, bool):
            return False
        if isinstance(v, int):
            return C.I32_MIN <= v <= C.I32_MAX
        # lenient reading (DESIGN §3.1): an integral float denoting a 32-bit value is accepted
        return isinstance(v, float) and math.isfinite(v) and v == math.floor(v) and C.I32_MIN <= v <= C.I32_MAX
    if t == "Float":
        return isinstance(v, (int, float)) and not isinstance(v, bool) and (isinstance(v, int) or math.isfinite(v))
    if t in ("String", "ID"):
        return isinstance(v, str)
    if t == "Boolean":
        return isinstance(v, bool)
    return json_ok(v)


def json_ok(v, depth=0):
    """structural JSON-serialisability (what json.dumps accepts with allow_nan=False)"""
    if v is None or isinstance(v, (bool, str)):
        return True
    if isinstance(v, int):
        return True
    if isinstance(v, float):
        return math.isfinite(v)
    if depth > 20:
        return False
    if isinstance(v, (list, tuple)):
        return all(json_ok(x, depth + 1) for x in v)
    if isinstance(v, dict):
        return all(isinstance(k, str) and json_ok(x, depth + 1) for k, x in v.items())
    return False


class Conform(Ref):
    def __init__(self, model, doc, variables_coerced):
        super().__init__(model, doc, None, None)
        self.vars = variables_coerced

    def value(self, t, nodes, v):
        if is_nn(t):
            return v is not None and self.value(t[1], nodes, v)
        if v is None:
            return True
        if is_list(t):
            return isinstance(v, list) and all(self.value(t[1], nodes, x) for x in v)
        td = self.m["types"][t]
        k = td["kind"]
        if k == "SCALAR":
            return leaf_ok(self.m, t, v)
        if k == "ENUM":
            return isinstance(v, str) and v in td["values"]
        if k == "OBJECT":
            return self.obj(t, nodes, v)
        return any(self.obj(p, nodes, v) for p in td["possible"])

    def obj(self, tname, nodes, v):
        if not isinstance(v, dict):
            return False
        grouped = {}
        visited = set()
        for n in nodes:
            if n["selectionSet"]:
                self.collect(tname, n["selectionSet"], grouped, visited)
        if list(v.keys()) != list(grouped.keys()):
            return False
        for key, fnodes in grouped.items():
            fname = fnodes[0]["name"]["value"]
            if fname == "__typename":
                if v[key] != tname:
                    return False
                continue
            fdef = self.m["types"][tname]["fields"][fname]
            if not self.value(fdef["type"], fnodes, v[key]):
                return False
        return True


def conforms(model, doc, op, variables_coerced, data):
    if data is None:
        return True
    c = Conform(model, doc, variables_coerced)
    root = model["roots"][op["operation"]]
    return c.obj(root, [op], data)


def null_positions(data, path=()):
    out = []
    if data is None:
        out.append(path)
    elif isinstance(data, dict):
        for k, v in data.items():
            out += null_positions(v, path + (k,))
    elif isinstance(data, list):
        for i, v in enumerate(data):
            out += null_positions(v, path + (i,))
    return out
