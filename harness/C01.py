"""C01 — `data` equals the June-2018 execution algorithm's result; resolvers called exactly once per response key
and parent with the parent's value, the spec-coerced arguments and the caller's context.  (DESIGN §4 C01)"""
from typing import Optional
from vf import env, world
from vf.env import pick, pickb, verdict, observe, safe
from vf.ob import obligation, shard
from vf.ref.execute import Ref, to_pairs, errors_ok
from vf.ref import coerce as C
from vf import gqlfront

META = {
    "bounds": "schema X (vf/world.py) in 11 engine configurations (default/explicit resolvers, non-null layout, type resolvers, sequential coercion, Engine()+cook() two-step instantiation); 17 document templates, selection depth <= 4, lists of length 0..2, "
              "<= 3 fragments; leaves: unbounded int / Optional[int] / Optional[bool] / opaque str (len <= 2)",
    "outside": "documents outside the template catalogue; list length > 2; Float leaves symbolic (C10); message wording",
    "explanation": "Oracle: vf/ref/execute.py (CollectFields/ExecuteSelectionSet/CompleteValue written from the spec text) run on the same symbolic values.",
}

ENGINES = {
    "univ": world.make_engine("c01_univ", 0, "univ"),
    "plain": world.make_engine("c01_plain", 0, "plain"),
    "univ_nn": world.make_engine("c01_univ7", 7, "univ"),
    "tres": world.make_engine("c01_tres", 0, "univ", typeres=True),
    "plain_tres": world.make_engine("c01_ptres", 0, "plain", typeres=True),
    "seq": world.make_engine("c01_seq", 0, "univ", coerce_list_concurrently=False, coerce_parent_concurrently=False),
    # mixes: explicit @Resolver fields keep parent_concurrently=True while default-resolved siblings are coerced sequentially
    "plain_seq": world.make_engine("c01_pseq", 0, "plain", coerce_parent_concurrently=False),
}
from tartiflette import Resolver as _R  # noqa: E402
_R("Query.mid", schema_name="c01_ov", parent_concurrently=False)(world.universal)
_R("Mid.n", schema_name="c01_ov", parent_concurrently=False)(world.universal)
_R("Query.nn", schema_name="c01_ov", parent_concurrently=False)(world.universal)
ENGINES["ov"] = world.make_engine("c01_ov", 0, "univ")
# all three levels of type resolution present: field-level (Query.u), type-level (Node) and a custom engine-wide default (everything else)
ENGINES["cdt"] = world.make_engine("c01_cdt", 0, "univ", typeres=True, custom_default_type_resolver=world._tr_default)
# the documented two-step instantiation: Engine() then cook(sdl, ...everything...) — the options must arrive exactly as through create_engine
ENGINES["cook"] = world.make_engine("c01_cook", 0, "univ", two_step="cook", coerce_list_concurrently=False, coerce_parent_concurrently=False)
ENGINES["init"] = world.make_engine("c01_init", 7, "univ", two_step="init")
MODELS = {"cook": world.model(0), "init": world.model(7), "univ": world.model(0), "plain": world.model(0), "univ_nn": world.model(7), "tres": world.model(0), "plain_tres": world.model(0), "seq": world.model(0), "plain_seq": world.model(0), "ov": world.model(0), "cdt": world.model(0)}

TEMPLATES = {
    "T01": "{ n nn }",
    "T02": "{ x: n y: n n nn z: nn }",
    "T03": "{ n n mid { n } mid { leaf { n } } mid { n leaf { s } } }",
    "T04": "query Q($s: Boolean!, $i: Boolean!) { n @skip(if: $s) nn @include(if: $i) mid @skip(if: $s) @include(if: $i) { n } "
           "k: n @skip(if: true) j: n @include(if: true) l: n @skip(if: false) @include(if: false) "
           "o1: n @include(if: $i) @skip(if: $s) o2: nn @include(if: true) @skip(if: $s) ... @include(if: $i) @skip(if: $s) { o3: n } ...O4 @include(if: $i) @skip(if: $s) } "
           "fragment O4 on Query { o4: nn }",
    "T05": "{ mids { leaves { n s } n } }",
    "T06": "{ ...F ...F x: n } fragment F on Query { n mid { ...G } } fragment G on Mid { n leaf { b ...H } } fragment H on Leaf { s }",
    "T07": "query Q($i: Boolean!) { ... { n } ... on Query { nn } ... @include(if: $i) { mid { n } } ... @skip(if: $i) { z: n } }",
    "T08": "query Q($s: Boolean!, $i: Boolean!) {\n"
           "  node { id ... on A { n x: n @skip(if: $s) } ...F }\n"
           "  u { __typename ... on B { flag } ... on Node { id } }\n"
           "  nodes @include(if: $i) { ...F id }\n"
           "}\n"
           "fragment F on Node { id ... on A { peer { id } n } ... on B { flag } }",
    "T09": "query A { n } query B { nn } mutation M { set(v: 1) }",
    "T10": "query Q($v: Int, $w: Int = 5) { echoInt(v: $v) e2: echoInt(v: 3) sum(a: $w) s2: sum(a: 1, b: $v) echoStr e3: echoStr(v: null) e4: echoInt }",
    "T11": "{ us { __typename ... on A { n color } ... on B { flag } } a { peer { id ... on B { flag } __typename } color } color }",
    "T12": "{ mid { leaf { my i f b } leaves { my } } }",
    "T13": "mutation { a: set(v: 1) other b: set(v: 2) deep { leaf { n } leaves { n } } }",
    "T15": "{ nodes { owner { n } ... on A { owner { s n } } ... on B { owner { b } } } us { ... on A { owner { n } } ... on Node { owner { s } } } }",
    "T16": "{ mid { ...F } m2: mid { ...F ...G } m3: mid { ...G } } fragment F on Mid { leaf { n } } fragment G on Mid { leaf { s } n }",
    # list items whose sub-trees have different depths (an A has a peer, a B has not): items complete at different times
    "T17": "{ nodes { id ... on A { peer { id ... on B { flag } } n } } us { ... on A { peer { id } } ... on B { flag } } mids { leaves { n } n } }",
    "T14": "query Q($s: Boolean!) { u { ... on A { n } ... on B { flag } ... on U { __typename } } node { ... on Node { id } ... on B @skip(if: $s) { flag } } }",
}
ASTS = {k: gqlfront.parse(v) for k, v in TEMPLATES.items()}
CTX = {"who": "caller"}


def warm():
    for e in ENGINES.values():
        for q in TEMPLATES.values():
            env.run(e.execute(q, variables={"s": True, "i": True}, operation_name=None))


warm()


ROOT_KEYS = {
    "T01": "n nn", "T02": "n nn", "T03": "n mid", "T04": "n nn mid", "T05": "mids", "T06": "n mid", "T07": "n nn mid",
    "T08": "node u nodes", "T09": "n nn", "T10": "", "T11": "us a color", "T12": "mid", "T13": "other deep", "T14": "u node", "T15": "us nodes", "T16": "mid", "T17": "nodes us mids",
}


class LazyP:
    """symbolic parameters are turned into concrete selectors only when the template's data needs them"""
    def __init__(self, sym, sh):
        self.sym = sym; self.sh = sh; self.c = {}

    def __getitem__(self, k):
        if k in self.c:
            return self.c[k]
        if k in self.sh:
            v = self.sh[k]
        elif k in ("t1", "t2", "t3"):
            v = pickb(self.sym[k])
        elif k == "nlen":
            v = pick(self.sym[k], 3)
        else:
            v = self.sym[k]
        self.c[k] = v
        return v


def mkdata(P, tn, tres, keys, mixed=False):
    def node(is_a, depth):
        tname = "A" if is_a else "B"
        if is_a:
            d = {"id": "a%d" % depth, "n": P["n"], "color": "RED", "peer": node(not is_a, depth + 1) if depth < 1 else None, "owner": leaf()}
        else:
            d = {"id": 7, "flag": P["flag"], "owner": leaf()}
        if tres:
            # three independent namings: the oracle picks the one the position calls for
            d["tr_node"] = tname
            d["tr_field"] = tname
            d["tr_default"] = tname
            other = "B" if is_a else "A"
            which = P["which"]         # 0: all agree, 1: default naming lies, 2: type-level lies where field-level exists
            if which == 1:
                return world.wrap(d, other, tn)
            if which == 2:
                d["tr_node"] = other if depth == 0 else tname
                d["_typename"] = tname
                return d
            if which == 3:           # only the custom engine-wide default tells the truth where it is the one in charge
                d["_typename"] = other
                d["tr_default"] = tname
                return d
        return world.wrap(d, tname, tn)

    def leaf():
        return {"n": P["n"], "s": P["st"], "b": P["flag"], "i": "id-1", "f": 1.5, "my": P["v"]}

    def mid():
        lf = leaf()
        if tn == 1 and not tres:
            lf = world.Obj(lf)
            return world.Obj({"leaf": lf, "leaves": [lf] * P["nlen"], "n": P["m"]})
        return {"leaf": lf, "leaves": [lf] * P["nlen"], "n": P["m"]}
    mk = {
        "node": lambda: node(P["t1"], 0), "u": lambda: node(P["t2"], 0),
        "nodes": lambda: ([node(P["t3"], 0)] * P["nlen"]) if not mixed else [node(P["t3"], 0), node(not P["t3"], 0)][:P["nlen"]],
        "us": lambda: [node(P["t1"], 0), node(not P["t1"], 0)][:P["nlen"]], "a": lambda: node(True, 0), "color": lambda: "GREEN",
        "mid": mid, "mids": lambda: [mid()] * P["nlen"], "n": lambda: P["n"], "nn": lambda: P["m"], "deep": mid,
        "other": lambda: P["m"],
    }
    return {k: mk[k]() for k in keys.split()}


def typeof_for(kind):
    if kind in ("tres", "plain_tres", "cdt"):
        def typeof(res, abstract, ptype, fname):
            if (ptype, fname) in (("Query", "u"), ("Query", "node")):
                return world.read(res, "tr_field")
            if abstract == "Node":
                return world.read(res, "tr_node")
            if kind == "cdt":
                return world.read(res, "tr_default")
            return world.typeof_default(res, abstract, ptype, fname)
        return typeof
    return world.typeof_default


def same_calls(log, ref, plain):
    """resolver log == the oracle's call list: once per (response path), same parent object, same args, caller's ctx"""
    got = [c for c in log if len(c) == 4]
    exp = ref.calls
    if plain:
        exp = [c for c in exp if (c[1] + "." + c[2]) in world.LOGGED_PLAIN or (plain == "plain_tres" and (c[1], c[2]) == ("Query", "u"))]
    bypath = {}
    for c in got:
        if c[0] in bypath:
            return False          # called twice for one response path
        bypath[c[0]] = c
    exppaths = set(e[0] for e in exp)
    for c in got:
        if c[0] not in exppaths:
            return False          # a resolver ran that the algorithm does not call
    pairs = []
    for e in exp:
        if e[0] not in bypath:
            # not called: only legitimate when a non-null failure propagated through an enclosing position and the engine
            # abandoned the remaining siblings (the specification allows cancelling them)
            if not any(len(q) < len(e[0]) and tuple(e[0][:len(q)]) == tuple(q) and any(len(c) > len(q) for c in causes) for q, causes in ref.nulled):
                return False
            continue
        pairs.append((bypath[e[0]], e))
    for g, e in pairs:
        if g[0] != e[0] or g[1] is not e[4] or g[3] is not CTX:
            return False
        if set(g[2].keys()) != set(e[3].keys()):
            return False
        for k in e[3]:
            a, b = g[2][k], e[3][k]
            if (a is None) != (b is None):
                return False
            if a is not None and a != b:
                return False
    return True


SHARDS = []
for t in TEMPLATES:
    kinds = ["univ", "plain"]
    if t in ("T08", "T11", "T14"):
        kinds = ["univ", "plain", "tres", "plain_tres", "cdt"]
    if t in ("T15", "T16", "T17"):
        kinds = ["univ", "plain", "seq"]
    if t in ("T03", "T05", "T12"):
        kinds = ["univ", "plain", "univ_nn"]
    if t in ("T05", "T08", "T13", "T06"):
        kinds = kinds + ["seq"]
    if t in ("T02", "T03", "T06", "T10", "T16"):
        kinds = kinds + ["plain_seq", "ov"]
    if t in ("T05", "T10", "T13"):
        kinds = kinds + ["cook"]
    if t in ("T03", "T12"):
        kinds = kinds + ["init"]
    for k in kinds:
        tns = [0, 1, 2] if t in ("T08", "T11", "T14") and k in ("univ", "plain") else [0]
        if t in ("T03", "T05", "T12") and k == "plain":
            tns = [0, 1]
        for tn in tns:
            base = {"tmpl": t, "eng": k, "tn": tn}
            if t == "T09":
                for op in ("A", "B", "M"):
                    SHARDS.append(dict(base, op=op))
            elif t == "T08":
                for nlen in (0, 1, 2):
                    if k == "cdt":
                        for which in (0, 3):
                            SHARDS.append(dict(base, nlen=nlen, which=which))
                    elif k in ("tres", "plain_tres"):
                        for which in (0, 1, 2):
                            SHARDS.append(dict(base, nlen=nlen, which=which))
                    else:
                        SHARDS.append(dict(base, nlen=nlen))
            elif k == "cdt":
                for which in (0, 3):
                    SHARDS.append(dict(base, which=which))
            elif k in ("tres", "plain_tres"):
                for which in (0, 1, 2):
                    SHARDS.append(dict(base, which=which))
            else:
                SHARDS.append(base)
_split = []
for sh_ in SHARDS:
    if sh_["tmpl"] in ("T04", "T08"):
        _split += [dict(sh_, s=True), dict(sh_, s=False)]
    elif sh_["tmpl"] == "T07":
        _split += [dict(sh_, i=True), dict(sh_, i=False)]
    else:
        _split.append(sh_)
SHARDS = _split
QUICK = [i for i, s in enumerate(SHARDS) if (s["eng"] in ("univ",) and s["tn"] == 0) or (s["eng"] in ("seq", "cook") and s["tmpl"] == "T05") or (s["eng"] == "init" and s["tmpl"] == "T03") or (s["eng"] == "univ_nn" and s["tmpl"] in ("T05", "T12")) or (s["eng"] in ("plain_seq", "ov") and s["tmpl"] in ("T03", "T02")) or (s["eng"] == "cdt" and s["tmpl"] == "T11" and s.get("which") == 3) or (s["tmpl"] in ("T08", "T14") and s.get("which") == 2 and s.get("nlen", 1) == 1)
         or (s["tmpl"] in ("T03", "T10", "T12") and s["eng"] == "plain" and s["tn"] == 0) or (s["tmpl"] in ("T03", "T05") and s["eng"] == "plain" and s["tn"] == 1)]


@obligation(tier="quick", timeout=240, shards=SHARDS, quick_shards=QUICK,
            samples=[{"s": False, "i": True, "t1": True, "t2": False, "t3": True, "n": 5, "m": 2, "flag": None, "st": "x", "v": 3, "nlen": 2},
                     {"s": True, "i": False, "t1": False, "t2": True, "t3": False, "n": None, "m": 2**31, "flag": True, "st": "", "v": None, "nlen": 1},
                     {"s": False, "i": False, "t1": True, "t2": True, "t3": False, "n": 0, "m": 0, "flag": False, "st": "", "v": 0, "nlen": 2},
                     {"s": True, "i": True, "t1": False, "t2": False, "t3": True, "n": -2**31, "m": -2**31, "flag": False, "st": "0", "v": -1, "nlen": 0}],
            symbolic=["n: Optional[int] (unbounded)", "m: int (unbounded)", "flag: Optional[bool]", "st: str (all strings)", "v: Optional[int]",
                      "s, i: bool via real variable coercion and the real @skip/@include hooks"],
            selectors=["t1,t2,t3: runtime type of node/u/nodes", "nlen: list length 0..2", "shard: template, engine kind, type-naming way, operation name"],
            bounds="templates T01-T17 x engines {univ, plain, univ_nn, tres, plain_tres, seq, plain_seq, ov, cdt, cook, init} x 3 type-naming ways",
            note="real Engine.execute vs reference executor: data incl. key order, error accounting, resolver call log")
def c01_exec(s: bool, i: bool, t1: bool, t2: bool, t3: bool, n: Optional[int], m: int, flag: Optional[bool], st: str,
             v: Optional[int], nlen: int) -> bool:
    """
    post: _
    """
    sh = shard()
    kind = sh["eng"]; tmpl = sh["tmpl"]; tn = sh["tn"]
    P = LazyP({"n": n, "m": m, "flag": flag, "st": st, "v": v, "nlen": nlen, "t1": t1, "t2": t2, "t3": t3, "which": 0}, sh)
    tres = kind in ("tres", "plain_tres", "cdt")
    data = mkdata(P, tn, tres, ROOT_KEYS[tmpl], mixed=(tmpl in ("T15", "T17")))
    s = sh.get("s", s); i = sh.get("i", i)
    variables = {"s": s, "i": i, "v": v, "w": n}
    if tmpl == "T10" and n is None:
        del variables["w"]            # absent -> variable default 5
    world.reset()
    q = TEMPLATES[tmpl]
    op = sh.get("op")
    ok, resp = safe(lambda: env.run(ENGINES[kind].execute(q, operation_name=op, variables=dict(variables), initial_value=data, context=CTX)))
    observe(resp)
    if not ok:
        return verdict(False)
    log = list(world.LOG)
    ref = Ref(MODELS[kind], ASTS[tmpl], world.ref_resolve, typeof_for(kind))
    try:
        exp = ref.execute(op, variables, data)
    except C.Bad:
        # a variable value outside the declared type: request error (C04's subject); here only data must be null
        return verdict(resp.get("data") is None and bool(resp.get("errors")) and not log)
    got = to_pairs(resp.get("data"))
    observe(("expected", exp, ref.errors))
    return verdict(got == exp and errors_ok(resp, ref) and same_calls(log, ref, ("plain" if kind == "plain_seq" else kind) if kind.startswith("plain") else None))
