#!/bin/sh
# tools/run_all.sh [quick|thorough] [ids...] : run the registered checks one after another (each uses all 16 cores), log to .build/runall-<tier>.log
cd "$(dirname "$0")/.."
TIER=${1:-quick}; shift 2>/dev/null
IDS=${@:-C01 C02 C03 C04 C05 C06 C07 C08 C09 C10 C11 C12 C13 C14 C15 C16 C17 C18}
mkdir -p .build
for p in $IDS; do
  S=$(date +%s); ./vcheck $p --tier $TIER > .build/run-$p-$TIER.log 2>&1; RC=$?
  echo "$p $TIER exit=$RC $(( $(date +%s) - S ))s: $(tail -1 .build/run-$p-$TIER.log)"
done
