"""Expected introspection of a schema model (June-2018 §4), independent of tartiflette.
expected(model, include_deprecated) -> normalised dict; normalise(engine __schema result) -> same shape.
Default values are compared as *values* (the engine's defaultValue string re-parsed as a GraphQL literal)."""
from vf.ref.model import ABSENT, is_nn, is_list, Enum
from vf import gqlfront

BUILTIN_SCALARS = ["Int", "Float", "String", "Boolean", "ID", "Date", "Time", "DateTime"]
META_TYPES = ["__Schema", "__Type", "__Field", "__InputValue", "__EnumValue", "__Directive", "__TypeKind", "__DirectiveLocation"]
BUILTIN_DIRECTIVES = {
    "deprecated": {"locations": ["FIELD_DEFINITION", "ENUM_VALUE"], "args": {"reason": ("String", "No longer supported")}},
    "nonIntrospectable": {"locations": ["FIELD_DEFINITION", "SCHEMA"], "args": {}},
    "skip": {"locations": ["FIELD", "FRAGMENT_SPREAD", "INLINE_FRAGMENT"], "args": {"if": (("NN", "Boolean"), ABSENT)}},
    "include": {"locations": ["FIELD", "FRAGMENT_SPREAD", "INLINE_FRAGMENT"], "args": {"if": (("NN", "Boolean"), ABSENT)}},
}
QUERY = """
query I($d: Boolean = false) { __schema { queryType { name } mutationType { name } subscriptionType { name }
  types { ...FT }
  directives { name description locations args { name description defaultValue type { ...T } } } } }
fragment FT on __Type { kind name description fields(includeDeprecated: $d) { name description isDeprecated deprecationReason args { name description defaultValue type { ...T } } type { ...T } }
          inputFields { name description defaultValue type { ...T } } interfaces { name } enumValues(includeDeprecated: $d) { name description isDeprecated deprecationReason } possibleTypes { name } }
fragment T on __Type { kind name ofType { kind name ofType { kind name ofType { kind name ofType { kind name ofType { kind name ofType { kind name ofType { kind name ofType { kind name } } } } } } } } }
"""


def tref_of_intro(t):
    if t is None:
        return None
    if t["kind"] == "NON_NULL":
        return ("NN", tref_of_intro(t["ofType"]))
    if t["kind"] == "LIST":
        return ("LIST", tref_of_intro(t["ofType"]))
    return t["name"]


def parse_default(s):
    """engine's defaultValue string -> python value (Enum for enum literals); raises on a non-literal"""
    if s is None:
        return ABSENT
    p = gqlfront.Parser(s)
    v = p.value(const=True)
    if p.t.kind != "eof":
        raise ValueError("trailing text in default value: %r" % s)
    from vf.ref.model import const_value
    return const_value(v)


def deprecation(dirs):
    for name, args in dirs:
        if name == "deprecated":
            r = args.get("reason", "No longer supported")
            return True, r
    return False, None


def hidden(dirs):
    return any(n in ("nonIntrospectable", "non_introspectable") for n, _ in dirs)


def _args(args):
    return {n: {"type": a["type"], "default": a["default"], "description": a.get("description")} for n, a in args.items()}


def expected(m, include_deprecated):
    types = {}
    for name, T in m["types"].items():
        k = T["kind"]
        e = {"kind": k, "name": name, "description": T.get("description"), "fields": None, "inputFields": None, "interfaces": None, "enumValues": None, "possibleTypes": None}
        if name in BUILTIN_SCALARS:
            e["description"] = "*"       # the engine's own description of its built-in scalars is not pinned
        if k in ("OBJECT", "INTERFACE"):
            fs = {}
            for fn, fd in T["fields"].items():
                if hidden(fd["directives"]):
                    continue
                dep, reason = deprecation(fd["directives"])
                if dep and not include_deprecated:
                    continue
                fs[fn] = {"type": fd["type"], "args": _args(fd["args"]), "isDeprecated": dep, "deprecationReason": reason, "description": fd.get("description")}
            e["fields"] = fs
        if k == "OBJECT":
            e["interfaces"] = sorted(T.get("interfaces", []))
        if k in ("INTERFACE", "UNION"):
            e["possibleTypes"] = sorted(T["possible"])
        if k == "ENUM":
            vs = {}
            for vn, vd in T["values"].items():
                dep, reason = deprecation(vd["directives"])
                if dep and not include_deprecated:
                    continue
                vs[vn] = {"isDeprecated": dep, "deprecationReason": reason, "description": vd.get("description")}
            e["enumValues"] = vs
        if k == "INPUT_OBJECT":
            e["inputFields"] = _args(T["fields"])
        types[name] = e
    for s in BUILTIN_SCALARS:
        types.setdefault(s, {"kind": "SCALAR", "name": s, "description": "*", "fields": None, "inputFields": None, "interfaces": None, "enumValues": None, "possibleTypes": None})
    dirs = {}
    for n, d in m["directives"].items():
        dirs[n] = {"locations": sorted(d["locations"]), "args": _args(d["args"]), "description": d.get("description")}
    for n, d in BUILTIN_DIRECTIVES.items():
        dirs.setdefault(n, {"locations": sorted(d["locations"]), "args": {a: {"type": t, "default": dv, "description": "*"} for a, (t, dv) in d["args"].items()}, "description": "*"})
    return {"roots": dict(m["roots"]), "types": types, "directives": dirs}


def _norm_args(lst):
    out = {}
    for a in lst or []:
        out[a["name"]] = {"type": tref_of_intro(a["type"]), "default": parse_default(a["defaultValue"]), "description": a.get("description"), "_raw": a["defaultValue"]}
    return out


def normalise_type(t):
    e = {"kind": t["kind"], "name": t["name"], "description": t.get("description"), "fields": None, "inputFields": None, "interfaces": None, "enumValues": None, "possibleTypes": None}
    if t.get("fields") is not None:
        e["fields"] = {f["name"]: {"type": tref_of_intro(f["type"]), "args": _norm_args(f["args"]), "isDeprecated": f["isDeprecated"], "deprecationReason": f["deprecationReason"], "description": f.get("description")} for f in t["fields"]}
        if len(e["fields"]) != len(t["fields"]):
            e["_dup"] = True
    if t.get("inputFields") is not None:
        e["inputFields"] = _norm_args(t["inputFields"])
    if t.get("interfaces") is not None:
        e["interfaces"] = sorted(i["name"] for i in t["interfaces"])
    if t.get("possibleTypes") is not None:
        e["possibleTypes"] = sorted(p["name"] for p in t["possibleTypes"])
    if t.get("enumValues") is not None:
        e["enumValues"] = {v["name"]: {"isDeprecated": v["isDeprecated"], "deprecationReason": v["deprecationReason"], "description": v.get("description")} for v in t["enumValues"]}
    return e


def normalise(schema):
    types = {}
    dup = []
    for t in schema["types"]:
        if t["name"] in types:
            dup.append(t["name"])
        types[t["name"]] = normalise_type(t)
    dirs = {}
    for d in schema["directives"]:
        if d["name"] in dirs:
            dup.append("@" + d["name"])
        dirs[d["name"]] = {"locations": sorted(d["locations"]), "args": _norm_args(d["args"]), "description": d.get("description")}
    roots = {"query": (schema["queryType"] or {}).get("name"), "mutation": (schema["mutationType"] or {}).get("name"), "subscription": (schema["subscriptionType"] or {}).get("name")}
    return {"roots": roots, "types": types, "directives": dirs, "duplicates": dup}


def same_default(a, e):
    if a is ABSENT or e is ABSENT:
        return a is e
    if isinstance(e, Enum) != isinstance(a, Enum):
        return False
    if isinstance(e, bool) != isinstance(a, bool):
        return False
    if isinstance(e, float) or isinstance(a, float):
        return isinstance(a, (int, float)) and isinstance(e, (int, float)) and float(a) == float(e)
    if isinstance(e, list):
        return isinstance(a, list) and len(a) == len(e) and all(same_default(x, y) for x, y in zip(a, e))
    if isinstance(e, dict):
        return isinstance(a, dict) and set(a) == set(e) and all(same_default(a[k], e[k]) for k in e)
    return a == e


def desc_ok(a, e):
    if e == "*":
        return True
    return (a or None) == (e or None)


def diff_args(where, got, exp, out):
    if set(got) != set(exp):
        out.append("%s: arguments %s != declared %s" % (where, sorted(got), sorted(exp)))
        return
    for n in exp:
        if got[n]["type"] != exp[n]["type"]:
            out.append("%s.%s: type %r != %r" % (where, n, got[n]["type"], exp[n]["type"]))
        if not same_default(got[n]["default"], exp[n]["default"]):
            out.append("%s.%s: defaultValue %r (parsed %r) != declared %r" % (where, n, got[n].get("_raw"), got[n]["default"], exp[n]["default"]))
        if not desc_ok(got[n]["description"], exp[n]["description"]):
            out.append("%s.%s: description" % (where, n))


def diff(got, exp):
    """list of human-readable differences; [] = the introspection describes exactly the model"""
    out = []
    if got["duplicates"]:
        out.append("duplicate entries: %s" % got["duplicates"])
    if got["roots"] != exp["roots"]:
        out.append("roots %r != %r" % (got["roots"], exp["roots"]))
    extra = set(got["types"]) - set(exp["types"]) - set(META_TYPES)
    missing = set(exp["types"]) - set(got["types"])
    if extra:
        out.append("types beyond the declarations: %s" % sorted(extra))
    if missing:
        out.append("declared types missing: %s" % sorted(missing))
    for n, e in exp["types"].items():
        g = got["types"].get(n)
        if g is None:
            continue
        for key in ("kind", "interfaces", "possibleTypes"):
            if g[key] != e[key]:
                out.append("type %s: %s %r != %r" % (n, key, g[key], e[key]))
        if not desc_ok(g["description"], e["description"]):
            out.append("type %s: description %r != %r" % (n, g["description"], e["description"]))
        if (g["fields"] is None) != (e["fields"] is None):
            out.append("type %s: fields presence" % n)
        elif e["fields"] is not None:
            if set(g["fields"]) != set(e["fields"]):
                out.append("type %s: fields %s != %s" % (n, sorted(g["fields"]), sorted(e["fields"])))
            for fn in set(g["fields"]) & set(e["fields"]):
                gf, ef = g["fields"][fn], e["fields"][fn]
                if gf["type"] != ef["type"]:
                    out.append("%s.%s: type %r != %r" % (n, fn, gf["type"], ef["type"]))
                if (gf["isDeprecated"], gf["deprecationReason"]) != (ef["isDeprecated"], ef["deprecationReason"]):
                    out.append("%s.%s: deprecation %r != %r" % (n, fn, (gf["isDeprecated"], gf["deprecationReason"]), (ef["isDeprecated"], ef["deprecationReason"])))
                if not desc_ok(gf["description"], ef["description"]):
                    out.append("%s.%s: description" % (n, fn))
                diff_args("%s.%s" % (n, fn), gf["args"], ef["args"], out)
        if (g["inputFields"] is None) != (e["inputFields"] is None):
            out.append("type %s: inputFields presence" % n)
        elif e["inputFields"] is not None:
            diff_args("input %s" % n, g["inputFields"], e["inputFields"], out)
        if (g["enumValues"] is None) != (e["enumValues"] is None):
            out.append("type %s: enumValues presence" % n)
        elif e["enumValues"] is not None and g["enumValues"] != e["enumValues"]:
            out.append("enum %s: values %r != %r" % (n, g["enumValues"], e["enumValues"]))
    if set(got["directives"]) != set(exp["directives"]):
        out.append("directives %s != %s" % (sorted(got["directives"]), sorted(exp["directives"])))
    for n in set(got["directives"]) & set(exp["directives"]):
        if got["directives"][n]["locations"] != exp["directives"][n]["locations"]:
            out.append("directive @%s: locations %r != %r" % (n, got["directives"][n]["locations"], exp["directives"][n]["locations"]))
        diff_args("@%s" % n, got["directives"][n]["args"], exp["directives"][n]["args"], out)
    return out
