"""C05 — field and directive arguments reach resolvers spec-coerced; literal = variable = default; nested values obey
the same rules; no value of another type is ever delivered.  (DESIGN §4 C05)"""
import copy
from typing import Optional
from vf import env
from vf.env import pick, pickb, verdict, observe, safe, build, DictCache
from vf.ob import obligation, shard, finding_open
from vf.ref.model import model_from_sdl, ABSENT, tstr, is_nn, is_list
from vf.ref import coerce as C
from vf.ref.execute import Ref, to_pairs, errors_ok, tref_of
from vf import gqlfront
from tartiflette import Resolver, Directive
from crosshair.tracers import NoTracing

META = {
    "bounds": "19 argument positions (Int, Int!, [Int], [[Int]], [Int!]!, [Int]!, [[Int]!], [[Int!]] (variable-usage obligation), [String], [Color], [ID!], String, Boolean, ID, Float, enum, recursive input object, [Inp!], each with/without schema default) "
              "x 10 value expressions (leaf, lists <= 2, null, objects, nesting) x field and directive position; int literals abstracted as int(text)=n with n unbounded",
    "outside": "the decimal rendering/parsing of int literals (CPython int()); Float literals' text (C10); lists longer than 2",
    "explanation": "Each value is supplied as a literal and through a correctly typed variable (and nested in list/object literals); both argument dictionaries must equal the reference CoerceArgumentValues result.",
}
NAME = "c05"
SDL = """
enum Color { RED GREEN }
input Inp { x: Int! y: [Int] = [1] c: Color = RED inner: Inp n: Int! = 10 }
directive @d(i: Int, li: [Int], o: Inp, s: String = "ds", ni: Int! = 4) on FIELD
type Query {
  p_i(x: Int): String  p_ni(x: Int!): String  p_di(x: Int = 7): String  p_li(x: [Int]): String  p_lli(x: [[Int]]): String
  p_nli(x: [Int!]!): String  p_s(x: String): String  p_ds(x: String = "d"): String  p_b(x: Boolean): String  p_id(x: ID): String
  p_c(x: Color): String  p_dc(x: Color = GREEN): String  p_o(x: Inp): String  p_do(x: Inp = {x: 1}): String  p_lo(x: [Inp!]): String
  p_f(x: Float): String  p_dli(x: [Int] = [1, 2]): String p_dnull(x: Int = null): String
  p_ls(x: [String]): String  p_lc(x: [Color]): String  p_lid(x: [ID!]): String
  w_nl(x: [Int]!): String  w_lnl(x: [[Int]!]): String  w_lln(x: [[Int!]]): String
  sib: Int
}
"""
LOG = []
DLOG = []


@Resolver("Query.sib", schema_name=NAME)
async def _sib(parent, args, ctx, info):
    LOG.append(("sib", args))
    return 1


async def _probe(parent, args, ctx, info):
    LOG.append((info.field_name, args))
    return "ok"


class D:
    async def on_field_execution(self, directive_args, next_resolver, parent, args, ctx, info):
        DLOG.append(directive_args)
        return await next_resolver(parent, args, ctx, info)


Directive("d", schema_name=NAME)(D())
MODEL = model_from_sdl(SDL)
FIELDS = [f for f in MODEL["types"]["Query"]["fields"] if f.startswith("p_")]
for _f in FIELDS:
    Resolver("Query." + _f, schema_name=NAME)(_probe)
# list positions whose levels differ in nullability (only used by c05_vartype: not part of FIELDS, so the literal/variable/default case table is unchanged)
for _f in ("w_nl", "w_lnl", "w_lln"):
    Resolver("Query." + _f, schema_name=NAME)(_probe)
ENG = build(SDL, NAME, query_cache_decorator=None)
env.run(ENG.execute("{ sib }"))


# value expressions: text with markers 1000001/1000002 (ints), "S0"/"S1" (strings), true (bool), RED (enum)
EXPRS = {
    "leaf": "M0", "list1": "[M0]", "list2": "[M0, M1]", "null": "null", "listnull": "[M0, null]", "nest": "[[M0], [M1, M0]]",
    "obj": "{x: M0}", "objfull": "{x: M0, y: [M1], c: GREEN, inner: {x: M1}}", "objnull": "{x: M0, y: null, inner: null}", "lobj": "[{x: M0}, {x: M1, y: [M0]}]",
    "single": "M0",   # a single value where a list is expected
}
LEAFKIND = {"Int": "int", "Float": "int", "String": "str", "ID": "str", "Boolean": "bool", "Color": "enum", "Inp": "int"}
MARK = {"int": ["1000001", "1000002"], "str": ['"S0"', '"S1"'], "bool": ["true", "false"], "enum": ["RED", "GREEN"]}


def _cases():
    out = []
    q = MODEL["types"]["Query"]["fields"]
    for f in FIELDS:
        t = q[f]["args"]["x"]["type"]
        from vf.ref.model import named
        base = named(t)
        depth = tstr(t).count("[")
        if base == "Inp":
            exprs = ["obj", "objfull", "objnull", "null"] + (["lobj", "obj"] if depth else [])
        elif depth == 0:
            exprs = ["leaf", "null"]
        elif depth == 1:
            exprs = ["list1", "list2", "null", "listnull", "single"]
        else:
            exprs = ["nest", "list1", "single", "null"]
        for e in dict.fromkeys(exprs):
            if e in ("null", "listnull", "objnull") and (is_nn(t) or (e == "listnull" and "!" in tstr(t))):
                continue
            out.append({"pos": "field", "f": f, "expr": e})
    for a, exprs in (("i", ["leaf", "null"]), ("li", ["list2", "single", "listnull"]), ("o", ["obj", "objfull"]), ("s", ["leaf"]), ("ni", ["leaf"])):
        for e in exprs:
            out.append({"pos": "dir", "f": a, "expr": e})
    return out


CASES = _cases()


def texts(case):
    if case["pos"] == "field":
        adef = MODEL["types"]["Query"]["fields"][case["f"]]["args"]["x"]
    else:
        adef = MODEL["directives"]["d"]["args"][case["f"]]
    from vf.ref.model import named
    kind = LEAFKIND[named(adef["type"])]
    e = EXPRS[case["expr"]].replace("M0", MARK[kind][0]).replace("M1", MARK[kind][1])
    t = tstr(adef["type"])
    if case["pos"] == "field":
        lit = "{ %s(x: %s) sib }" % (case["f"], e)
        var = "query Q($v: %s) { %s(x: $v) sib }" % (t, case["f"])
    else:
        lit = "{ sib @d(%s: %s) }" % (case["f"], e)
        var = "query Q($v: %s) { sib @d(%s: $v) }" % (t, case["f"])
    return lit, var, kind, adef


PARSED = {}
for _i, _c in enumerate(CASES):
    _l, _v, _k, _a = texts(_c)
    PARSED[_i] = (_l, gqlfront.parse(_l), _v, gqlfront.parse(_v), _k, _a)


def subst(node, kind, leaves):
    """replace marker literals by the (symbolic) leaves; returns (new AST, python value builder is separate)"""
    if isinstance(node, list):
        return [subst(x, kind, leaves) for x in node]
    if not isinstance(node, dict):
        return node
    k = node.get("kind")
    if k == "IntValue" and node["value"] in MARK["int"]:
        return dict(node, value=leaves[MARK["int"].index(node["value"])])     # abstraction of the digit text: int(text) == n
    if k == "StringValue" and node["value"] in ("S0", "S1"):
        return dict(node, value=leaves[("S0", "S1").index(node["value"])])
    if k == "BooleanValue" and kind == "bool":
        return dict(node, value=leaves[0 if node["value"] else 1])
    if k == "EnumValue" and kind == "enum" and node["value"] in MARK["enum"]:
        return dict(node, value=leaves[MARK["enum"].index(node["value"])])
    return {kk: subst(v, kind, leaves) for kk, v in node.items()}


def pyvalue(node, kind, leaves):
    """the JSON value a variable must carry to denote the same value as the literal"""
    k = node["kind"]
    if k == "IntValue":
        return leaves[MARK["int"].index(node["value"])] if node["value"] in MARK["int"] else int(node["value"])
    if k == "StringValue":
        return leaves[("S0", "S1").index(node["value"])] if node["value"] in ("S0", "S1") else node["value"]
    if k == "BooleanValue":
        return leaves[0 if node["value"] else 1] if kind == "bool" else node["value"]
    if k == "EnumValue":
        return leaves[MARK["enum"].index(node["value"])] if (kind == "enum" and node["value"] in MARK["enum"]) else node["value"]
    if k == "NullValue":
        return None
    if k == "ListValue":
        return [pyvalue(x, kind, leaves) for x in node["values"] or []]
    if k == "ObjectValue":
        return {f["name"]["value"]: pyvalue(f["value"], kind, leaves) for f in node["fields"] or []}
    raise AssertionError(k)


def run_ast(text, ast, variables):
    del LOG[:]; del DLOG[:]
    old = env.FFI._parse_to_json_ast
    env.FFI._parse_to_json_ast = lambda q: ast
    try:
        ok, resp = safe(lambda: env.run(ENG.execute(text, variables=variables)))
    finally:
        env.FFI._parse_to_json_ast = old
    return ok, resp, list(LOG), list(DLOG)


def eqv(a, e):
    """equality of coerced argument values keeping None/absent and bool/int apart"""
    if (a is None) or (e is None):
        return a is None and e is None
    if isinstance(e, bool) or isinstance(a, bool):
        return isinstance(a, bool) and isinstance(e, bool) and a == e
    if isinstance(e, list):
        return isinstance(a, list) and len(a) == len(e) and all(eqv(x, y) for x, y in zip(a, e))
    if isinstance(e, dict):
        return isinstance(a, dict) and set(a.keys()) == set(e.keys()) and all(eqv(a[k], e[k]) for k in e)
    return a == e


def argvalue_node(ast, pos):
    sel = ast["definitions"][0]["selectionSet"]["selections"]
    if pos == "field":
        return sel[0]["arguments"][0]["value"]
    return sel[0]["directives"][0]["arguments"][0]["value"]


QUICK = [i for i, c in enumerate(CASES) if c["f"] in ("p_i", "p_ni", "p_li", "p_nli", "p_o", "p_c", "p_s", "p_di", "p_lo", "p_ls", "p_lc", "i", "o", "li") ]


@obligation(tier="quick", timeout=200, shards=[{"case": i} for i in range(len(CASES))], quick_shards=QUICK,
            samples=[{"n0": 5, "n1": 2**31, "s0": "a", "s1": "", "b0": True, "b1": False, "e0": False, "e1": True},
                     {"n0": 0, "n1": -2**31, "s0": "", "s1": "0", "b0": False, "b1": True, "e0": True, "e1": False},
                     {"n0": 2**31 - 1, "n1": 0, "s0": "false", "s1": "null", "b0": False, "b1": False, "e0": False, "e1": False},
                     {"n0": -2**31, "n1": 0, "s0": "RED", "s1": "x", "b0": False, "b1": False, "e0": True, "e1": True}],
            symbolic=["n0, n1: int (unbounded; int literal text abstracted as int(text)=n)", "s0, s1: str (all strings)", "b0, b1: bool"],
            selectors=["e0, e1: enum value selectors", "shard: argument position (field/directive), declared type, value expression"],
            bounds="one (position, expression) per shard",
            note="literal form and variable form of the same value: both delivered dictionaries equal the reference CoerceArgumentValues result; a failing argument fails that field only (sibling resolved)")
def c05_lit_var(n0: int, n1: int, s0: str, s1: str, b0: bool, b1: bool, e0: bool, e1: bool) -> bool:
    """
    post: _
    """
    case = CASES[shard()["case"]]
    ltxt, last, vtxt, vast, kind, adef = PARSED[shard()["case"]]
    if kind == "int":
        leaves = [n0, n1]
        if "Float" in tstr(adef["type"]) and not (-2 ** 1000 < n0 < 2 ** 1000 and -2 ** 1000 < n1 < 2 ** 1000):
            return True
    elif kind == "str":
        leaves = [s0, s1]
    elif kind == "bool":
        leaves = [b0, b1]
    else:
        leaves = ["RED" if pickb(e0) else "GREEN", "GREEN" if pickb(e1) else "RED"]
    lit_ast = subst(last, kind, leaves)
    value = pyvalue(argvalue_node(last, case["pos"]), kind, leaves)
    # reference: coerce the literal (with python ints in place of digit texts)
    ref_node = subst(argvalue_node(last, case["pos"]), kind, leaves)
    defs = MODEL["types"]["Query"]["fields"][case["f"]]["args"] if case["pos"] == "field" else MODEL["directives"]["d"]["args"]
    argname = "x" if case["pos"] == "field" else case["f"]
    try:
        exp = C.coerce_arguments(MODEL, defs, [{"name": {"value": argname}, "value": ref_node}], {})
    except C.Bad:
        exp = None
    try:
        vexp = C.coerce_variables(MODEL, [("v", adef["type"], None)], {"v": value})
    except C.Bad:
        vexp = None
    observe(("expected", exp, vexp))
    ok1, r1, log1, dlog1 = run_ast(ltxt, lit_ast, {})
    ok2, r2, log2, dlog2 = run_ast(vtxt, vast, {"v": value})
    observe(r1, log1, dlog1, r2, log2, dlog2)
    if not ok1 or not ok2:
        return verdict(False)
    # ---- literal form
    if exp is None:
        # ill-typed literal: the document is invalid (refused) or that field alone fails; never delivered
        if any(name != "sib" for name, _ in log1) or dlog1:
            return verdict(False)
        if not r1.get("errors"):
            return verdict(False)
    else:
        if not delivered(case, log1, dlog1, exp) or r1.get("errors"):
            return verdict(False)
    # ---- variable form
    if vexp is None:
        if r2.get("data") is not None or log2 or dlog2:
            return verdict(False)
    else:
        if exp is None:
            return verdict(False)        # the literal is refused but the same JSON value is accepted through a variable
        if not delivered(case, log2, dlog2, exp) or r2.get("errors"):
            return verdict(False)
    return verdict(True)


def delivered(case, log, dlog, exp):
    if case["pos"] == "field":
        got = [a for name, a in log if name == case["f"]]
        if len(got) != 1 or not any(name == "sib" for name, _ in log):
            return False
        return eqv(got[0], exp)
    if len(dlog) != 1:
        return False
    return eqv(dlog[0], exp)


# ---- defaults: omitted argument == the same value written as a literal (all concrete: a finite catalogue) ----------
DEFAULT_CASES = [("p_di", "7"), ("p_ds", "\"d\""), ("p_dc", "GREEN"), ("p_do", "{x: 1}"), ("p_dli", "[1, 2]"), ("p_dnull", "null")]


@obligation(tier="quick", timeout=120,
            samples=[{"k": 0, "mode": 0}, {"k": 3, "mode": 2}],
            selectors=["k: defaulted argument", "mode: omitted / variable not provided / literal equal to the default / explicit null"],
            bounds="6 defaulted field arguments + the directive's defaults",
            note="omitted argument or an unprovided variable yields the schema default, identical to writing the default as a literal; explicit null stays null (absent != null)")
def c05_defaults(k: int, mode: int) -> bool:
    """
    post: _
    """
    k = pick(k, len(DEFAULT_CASES)); mode = pick(mode, 4)
    f, dtext = DEFAULT_CASES[k]
    adef = MODEL["types"]["Query"]["fields"][f]["args"]["x"]
    with NoTracing():
        if mode == 0:
            q = "{ %s sib @d }" % f
        elif mode == 1:
            q = "query Q($v: %s) { %s(x: $v) sib @d }" % (tstr(adef["type"]), f)
        elif mode == 2:
            q = "{ %s(x: %s) sib @d(s: \"ds\", ni: 4) }" % (f, dtext)
        else:
            q = "{ %s(x: null) sib @d(s: null) }" % f
        ast = gqlfront.parse(q)
    ok, r, log, dlog = run_ast(q, ast, {})
    observe(r, log, dlog)
    if not ok or r.get("errors"):
        return verdict(False)
    got = [a for name, a in log if name == f]
    dflt = C.default_value(MODEL, adef)
    if len(got) != 1 or len(dlog) != 1:
        return verdict(False)
    if mode == 3:
        return verdict("x" in got[0] and got[0]["x"] is None and "s" in dlog[0] and dlog[0]["s"] is None and dlog[0].get("ni") == 4)
    return verdict("x" in got[0] and eqv(got[0]["x"], dflt) and eqv(dlog[0], {"s": "ds", "ni": 4}))


# ---- no value of another type is ever delivered (variable type x position type, top level and nested) ------------
ARGS = [("p_i", "Int"), ("p_ni", "Int!"), ("p_li", "[Int]"), ("p_nli", "[Int!]!"), ("p_lli", "[[Int]]"), ("p_s", "String"), ("p_id", "ID"), ("p_b", "Boolean"),
        ("w_nl", "[Int]!"), ("w_lnl", "[[Int]!]"), ("w_lln", "[[Int!]]")]
VARTYPES = ["Int", "Int!", "[Int]", "[Int!]", "[Int]!", "String", "String!", "[String]", "Boolean", "ID"]
OBJ_INNER = [("x", "Int!"), ("y", "[Int]")]


def _parse_t(t):
    ast = gqlfront.parse("query($v: %s) { sib }" % t)
    return tref_of(ast["definitions"][0]["variableDefinitions"][0]["type"])


def value_for(vt, n, s, b):
    base_ = vt.replace("!", "").replace("[", "").replace("]", "")
    lf = n if base_ == "Int" else (b if base_ == "Boolean" else s)
    return [lf] if "[" in vt else lf


def is_f5(nested, usage_allowed):
    """known finding F5: a variable used inside a list/object literal is not checked against the type of its position;
    the finding covers exactly the usages rule 5.8.5 forbids — allowed nested usages are still checked against the reference"""
    return nested and not usage_allowed


from vf.ref.validation import allowed  # noqa: E402


@obligation(tier="quick", timeout=300, shards=[{"ai": i} for i in range(len(ARGS) + 2)],
            samples=[{"vi": 0, "where": 0, "n": 3, "s": "x", "b": True, "dflt": False, "vmode": 0}, {"vi": 1, "where": 0, "n": 0, "s": "", "b": False, "dflt": False, "vmode": 0}, {"vi": 8, "where": 0, "n": 0, "s": "", "b": False, "dflt": False, "vmode": 0}, {"vi": 6, "where": 0, "n": 0, "s": "", "b": False, "dflt": False, "vmode": 0}, {"vi": 5, "where": 1, "n": 3, "s": "boom", "b": False, "dflt": True, "vmode": 1}],
            symbolic=["n: int", "s: str", "b: bool"],
            selectors=["vi: declared variable type (10)", "where: top level / inside a list literal / inside an object literal", "dflt: variable has a default",
                       "vmode: value provided / explicit null / not provided", "shard: argument position"],
            bounds="10 variable types x 10 positions x 3 nestings x 3 supply modes", findings=["F5"],
            note="variable type x position type: a usage rule 5.8.5 forbids is refused (or nothing ill-typed is delivered); an allowed usage delivers exactly the reference value, "
                 "and a null/missing variable at a non-null position (top level or nested) fails that field only")
def c05_vartype(vi: int, where: int, n: int, s: str, b: bool, dflt: bool, vmode: int) -> bool:
    """
    post: _
    """
    ai = shard()["ai"]
    vi = pick(vi, len(VARTYPES)); where = pick(where, 3); dflt = pickb(dflt); vmode = pick(vmode, 3)
    vt = VARTYPES[vi]
    with NoTracing():
        dtxt = ""
        base_ = vt.replace("!", "").replace("[", "").replace("]", "")
        if dflt and not vt.endswith("!"):
            dv = {"Int": "7", "String": "\"dv\"", "Boolean": "true", "ID": "\"di\""}[base_]
            dtxt = " = " + ("[" + dv + "]" if "[" in vt else dv)
        else:
            dflt = False
        if ai < len(ARGS):
            f, at = ARGS[ai]
            if where == 0:
                q = "query Q($v: %s%s) { %s(x: $v) sib }" % (vt, dtxt, f); pos_t = at
            elif where == 1:
                if not at.startswith("["):
                    return True
                q = "query Q($v: %s%s) { %s(x: [$v]) sib }" % (vt, dtxt, f)
                pos_t = at[1:-2] if at.endswith("!") else at[1:-1]
            else:
                return True
            nested = where != 0
        else:
            inner, it = OBJ_INNER[ai - len(ARGS)]
            f = "p_o"; nested = True; pos_t = it
            if where == 0:
                q = "query Q($v: %s%s) { p_o(x: {x: 1, %s: $v}) sib }" % (vt, dtxt, inner) if inner != "x" else "query Q($v: %s%s) { p_o(x: {x: $v}) sib }" % (vt, dtxt)
            elif where == 1:
                if inner != "y":
                    return True
                q = "query Q($v: %s%s) { p_o(x: {x: 1, y: [$v]}) sib }" % (vt, dtxt); pos_t = "Int"
            else:
                q = "query Q($v: %s%s) { p_o(x: {x: 1, inner: {x: 2, %s: $v}}) sib }" % (vt, dtxt, inner) if inner != "x" else "query Q($v: %s%s) { p_o(x: {x: 1, inner: {x: $v}}) sib }" % (vt, dtxt)
        ast = gqlfront.parse(q)
        usage_ok = allowed(vt, pos_t, dflt, False)
    if finding_open("F5") and is_f5(nested, usage_ok):
        return True
    variables = {}
    if vmode == 0:
        variables["v"] = value_for(vt, n, s, b)
    elif vmode == 1:
        variables["v"] = None
    ok, r, log, dlog = run_ast(q, ast, dict(variables))
    observe(q, variables, r, log)
    if not ok:
        return verdict(False)
    got = [a for name, a in log if name == f]
    if not usage_ok:
        # the document is invalid: refused, nothing runs
        return verdict(r.get("data") is None and bool(r.get("errors")) and not log)
    # allowed usage: the reference decides
    op = ast["definitions"][0]
    vardefs = [(vd["variable"]["name"]["value"], tref_of(vd["type"]), vd["defaultValue"]) for vd in op["variableDefinitions"]]
    try:
        cv = C.coerce_variables(MODEL, vardefs, variables)
    except C.Bad:
        return verdict(r.get("data") is None and bool(r.get("errors")) and not log)
    fdef = MODEL["types"]["Query"]["fields"][f]
    argnodes = op["selectionSet"]["selections"][0]["arguments"]
    try:
        exp = C.coerce_arguments(MODEL, fdef["args"], argnodes, cv)
    except C.Bad:
        exp = None
    observe(("expected", exp))
    if exp is None:
        # that field only fails: not called, error reported, sibling resolved
        return verdict(not got and bool(r.get("errors")) and r.get("data") is not None and r["data"].get(f) is None and any(name == "sib" for name, _ in log))
    return verdict(len(got) == 1 and eqv(got[0], exp) and not r.get("errors"))


# ---- several arguments on one field / directive, any subset supplied, under every arguments-coercer configuration -------------
from tartiflette.resolver.default import sync_arguments_coercer, gather_arguments_coercer  # noqa: E402

ARGS_M = "a: Int, b: String, c: Int = 3, d: Boolean, e: Int! = 5"
SDL_M = """
directive @dm(%s) on FIELD
type Query { multi(%s): String  multi_r(%s): String  sib: Int }
""" % (ARGS_M, ARGS_M, ARGS_M)
MODEL_M = model_from_sdl(SDL_M)
MNAMES = ["a", "b", "c", "d", "e"]
MTYPES = {"a": "Int", "b": "String", "c": "Int", "d": "Boolean", "e": "Int!"}


def _make_m(name, engine_wide, resolver_level, directive_level):
    class DM:
        async def on_field_execution(self, directive_args, next_resolver, parent, args, ctx, info):
            DLOG.append(directive_args)
            return await next_resolver(parent, args, ctx, info)
    Directive("dm", schema_name=name, **({"arguments_coercer": directive_level} if directive_level else {}))(DM())
    Resolver("Query.multi", schema_name=name)(_probe)
    Resolver("Query.multi_r", schema_name=name, **({"arguments_coercer": resolver_level} if resolver_level else {}))(_probe)
    Resolver("Query.sib", schema_name=name)(_sib)
    kw = {"custom_default_arguments_coercer": engine_wide} if engine_wide else {}
    return build(SDL_M, name, query_cache_decorator=None, **kw)


ENGS_M = [_make_m("c05m_g", None, sync_arguments_coercer, sync_arguments_coercer),                       # documented default (gather), sync per resolver/directive
          _make_m("c05m_s", sync_arguments_coercer, gather_arguments_coercer, gather_arguments_coercer),   # sync engine-wide, gather per resolver/directive
          _make_m("c05m_gg", gather_arguments_coercer, None, None)]
for _e in ENGS_M:
    env.run(_e.execute("{ sib }"))
M_SHARDS = [{"eng": e, "site": s, "mask": m} for e in range(3) for s in ("multi", "multi_r", "dm") for m in range(32)]
M_QUICK = [i for i, s in enumerate(M_SHARDS) if s["mask"] in (2, 4, 9, 16, 21, 31, 0) and not (s["eng"] == 2 and s["site"] != "multi")]


@obligation(tier="quick", timeout=200, shards=M_SHARDS, quick_shards=M_QUICK,
            samples=[{"n": 5, "s": "x", "n2": 7, "b": True, "n3": 1, "mode": 0}, {"n": 2**31, "s": "", "n2": -1, "b": False, "n3": 0, "mode": 1}, {"n": 0, "s": "q", "n2": 0, "b": False, "n3": 9, "mode": 2}, {"n": 0, "s": "", "n2": 0, "b": False, "n3": 0, "mode": 1}, {"n": -2**31, "s": "0", "n2": 2**31 - 1, "b": False, "n3": -2**31, "mode": 1}],
            symbolic=["n, n2, n3: int (unbounded)", "s: str", "b: bool — the values of the supplied arguments (variable modes)"],
            selectors=["mode: literals / variables with values / variables without runtime value", "shard: arguments-coercer configuration (engine-wide, per resolver, per directive: gather or sync), "
                       "call site (field, field with its own coercer, directive), subset of the 5 declared arguments that is supplied (all 32)"],
            bounds="5 declared arguments (2 with defaults, 1 non-null), every subset supplied, 3 engines x 3 sites",
            note="every supplied argument arrives under ITS OWN name with its coerced value, omitted ones are absent or defaulted — whichever documented arguments coercer (gather / sync) is configured at engine, resolver or directive level")
def c05_multi(n: int, s: str, n2: int, b: bool, n3: int, mode: int) -> bool:
    """
    post: _
    """
    sh = shard()
    mode = pick(mode, 3)
    eng = ENGS_M[sh["eng"]]; site = sh["site"]; mask = sh["mask"]
    supplied = [a for i, a in enumerate(MNAMES) if mask >> i & 1]
    with NoTracing():
        if mode == 0:
            lits = {"a": "1000001", "b": "\"S0\"", "c": "1000002", "d": "true", "e": "1000003"}
            argt = ", ".join("%s: %s" % (a, lits[a]) for a in supplied)
            head = ""
        else:
            # an unprovided variable at the non-null position `e` needs a nullable variable type to be unprovided: it is declared Int! and then must be provided
            argt = ", ".join("%s: $%s" % (a, a) for a in supplied)
            head = "query Q(%s) " % ", ".join("$%s: %s" % (a, MTYPES[a]) for a in supplied) if supplied else ""
        argp = "(%s)" % argt if argt else ""
        q = "%s{ %s%s sib }" % (head, site, argp) if site != "dm" else "%s{ sib @dm%s }" % (head, argp)
        ast = gqlfront.parse(q)
    variables = {}
    if mode == 1:
        vals = {"a": n, "b": s, "c": n2, "d": b, "e": n3}
        variables = {a: vals[a] for a in supplied}
    elif mode == 2 and "e" in supplied:
        variables = {"e": n3}
    del LOG[:]; del DLOG[:]
    ok, r = safe(lambda: env.run(eng.execute(q, variables=dict(variables))))
    log = list(LOG); dlog = list(DLOG)
    observe(q, variables, r, log, dlog)
    if not ok:
        return verdict(False)
    op = ast["definitions"][0]
    vardefs = [(vd["variable"]["name"]["value"], tref_of(vd["type"]), vd["defaultValue"]) for vd in op["variableDefinitions"] or []]
    try:
        cv = C.coerce_variables(MODEL_M, vardefs, variables)
    except C.Bad:
        return verdict(r.get("data") is None and bool(r.get("errors")) and not log and not dlog)
    sel = op["selectionSet"]["selections"][0]
    if site == "dm":
        defs = MODEL_M["directives"]["dm"]["args"]; nodes = sel["directives"][0]["arguments"]
    else:
        defs = MODEL_M["types"]["Query"]["fields"][site]["args"]; nodes = sel["arguments"]
    exp = C.coerce_arguments(MODEL_M, defs, nodes, cv)
    if r.get("errors"):
        return verdict(False)
    if site == "dm":
        return verdict(len(dlog) == 1 and eqv(dlog[0], exp))
    got = [a for name, a in log if name == site]
    return verdict(len(got) == 1 and eqv(got[0], exp) and any(name == "sib" for name, _ in log))



# ---- several directives on ONE location (query side and schema side): each hook receives its OWN directive's coerced arguments ------------------
SDL_2 = """
directive @da(i: Int, s: String = "as") on FIELD | FIELD_DEFINITION
directive @db(j: Int = 9, l: [Int]) on FIELD | FIELD_DEFINITION
directive @dc on FIELD | FIELD_DEFINITION
type Query { sib: Int  deco: Int @da(i: 5, s: "sdl") @dc @db(l: [1]) }
"""
MODEL_2 = model_from_sdl(SDL_2)
DLOG2 = []


def _mk_dir(nm):
    class _Dx:
        async def on_field_execution(self, directive_args, next_resolver, parent, args, ctx, info):
            DLOG2.append((nm, directive_args))
            return await next_resolver(parent, args, ctx, info)
    return _Dx()


for _n in ("da", "db", "dc"):
    Directive(_n, schema_name="c05_2")(_mk_dir(_n))
Resolver("Query.sib", schema_name="c05_2")(_sib)
Resolver("Query.deco", schema_name="c05_2")(_sib)
ENG_2 = build(SDL_2, "c05_2", query_cache_decorator=None)
DOCS_2 = [
    ("query Q($a: Int, $b: Int) { sib @da(i: $a) @db(j: $b, l: [$a, 2]) }", [("da", {"i": "a", "s": "as"}), ("db", {"j": "b", "l": ["a", 2]})]),
    ("query Q($a: Int, $b: Int) { sib @db(l: [$b]) @dc @da(i: $a, s: \"q\") }", [("db", {"j": 9, "l": ["b"]}), ("dc", {}), ("da", {"i": "a", "s": "q"})]),
    ("query Q($a: Int, $b: Int) { deco @db(j: $a) @da(i: $b) }", [("db", {"j": "a"}), ("da", {"i": "b", "s": "as"}), ("da", {"i": 5, "s": "sdl"}), ("dc", {}), ("db", {"j": 9, "l": [1]})]),
    ("query Q($a: Int, $b: Int) { sib @dc @da(i: $a) x: sib @da(i: $b) @dc }", [("dc", {}), ("da", {"i": "a", "s": "as"}), ("da", {"i": "b", "s": "as"}), ("dc", {})]),
]
for _q, _ in DOCS_2:
    env.run(ENG_2.execute(_q, variables={"a": 1, "b": 2}))


@obligation(tier="quick", timeout=120, shards=[{"doc": d} for d in range(len(DOCS_2))],
            samples=[{"a": 1, "b": 2}, {"a": 0, "b": -2 ** 31}, {"a": None, "b": 7}],
            symbolic=["a, b: Optional[int] — variables used in the directives' arguments"],
            selectors=["shard: document (2-3 directives on one field in different orders, query-side next to schema-side directives, two fields with the same directives swapped)"],
            bounds="4 documents, 3 directives (one without arguments, two with defaults)",
            note="with several directives on one location every hook receives the coerced arguments of ITS OWN directive (defaults included), in declaration order, query-side before schema-side")
def c05_two_directives(a: Optional[int], b: Optional[int]) -> bool:
    """
    post: _
    """
    q, exp = DOCS_2[shard()["doc"]]
    for x in (a, b):
        if x is not None and not (-2 ** 31 <= x < 2 ** 31):
            return True
    del DLOG2[:]
    ok, r = safe(lambda: env.run(ENG_2.execute(q, variables={"a": a, "b": b})))
    got = list(DLOG2)
    observe(q, r, got)
    if not ok or r.get("errors"):
        return verdict(False)

    def inst(v):
        if isinstance(v, dict):
            return {k: inst(x) for k, x in v.items()}
        if isinstance(v, list):
            return [inst(x) for x in v]
        return a if v == "a" else (b if v == "b" else v)
    want = [(nm, inst(args)) for nm, args in exp]
    if len(got) != len(want):
        return verdict(False)
    for (gn, ga), (wn, wa) in zip(got, want):
        if gn != wn or not eqv(ga, wa):
            return verdict(False)
    return verdict(True)


# ---- the same variable name and type declared by different operations with different defaults: what one operation declared never shows in another -----
HIST = [
    ("query A($n: Int = 5) { p_i(x: $n) sib }", {}), ("query B($n: Int = 9) { p_i(x: $n) sib }", {}), ("query C($n: Int) { p_i(x: $n) sib }", {}),
    ("query D($n: Int = null) { p_i(x: $n) sib }", {}), ("query E($ns: [Int]) { p_dli(x: $ns) sib }", {}), ("query F($ns: [Int] = [3]) { p_dli(x: $ns) sib }", {}),
    ("query G($n: Int = 5) { p_i(x: $n) sib }", {"n": 1}), ("query H($n: Int! = 4) { p_ni(x: $n) sib }", {}), ("query I($n: Int!) { p_ni(x: $n) sib }", {"n": 2}),
]


def _expected_args(q, variables):
    ast = gqlfront.parse(q)
    op = ast["definitions"][0]
    vardefs = [(vd["variable"]["name"]["value"], tref_of(vd["type"]), vd["defaultValue"]) for vd in op["variableDefinitions"] or []]
    cv = C.coerce_variables(MODEL, vardefs, variables)
    sel = op["selectionSet"]["selections"][0]
    f = sel["name"]["value"]
    return f, C.coerce_arguments(MODEL, MODEL["types"]["Query"]["fields"][f]["args"], sel["arguments"], cv)


@obligation(tier="quick", timeout=60, shards=[{"first": a, "second": b} for a in range(len(HIST)) for b in range(len(HIST))],
            quick_shards=[i for i, (a, b) in enumerate((a, b) for a in range(len(HIST)) for b in range(len(HIST))) if (a, b) in ((0, 1), (0, 2), (1, 0), (2, 0), (5, 4), (4, 5), (0, 3), (6, 2), (7, 8), (0, 0), (3, 2), (7, 2))],
            samples=[{"k": 0}],
            selectors=["shard: first and second request (9 operations declaring $n / $ns with different or no defaults) — one fresh process per ordered pair", "k: unused"],
            bounds="every ordered pair of 9 operations on one engine",
            note="an operation's variable default (or the absence of one) is its own: the arguments delivered for the second request equal the reference result for THAT operation, whatever an earlier "
                 "operation with the same variable name and type declared")
def c05_history(k: int) -> bool:
    """
    post: _
    """
    for i in (shard()["first"], shard()["second"]):
        q, variables = HIST[i]
        with NoTracing():
            f, exp = _expected_args(q, variables)
        del LOG[:]; del DLOG[:]
        ok, r = safe(lambda: env.run(ENG.execute(q, variables=dict(variables))))
        got = [a for name, a in LOG if name == f]
        observe(q, r, got, ("expected", exp))
        if not ok or r.get("errors") or len(got) != 1 or not eqv(got[0], exp):
            return verdict(False)
    return verdict(True)
