"""Probe: reference input coercion (June 2018 §3.x 'Input Coercion', §6.1.2 CoerceVariableValues). Floats excluded here (E2)."""
class Bad(Exception):
    pass
ABSENT = object()

def coerce_input(schema, t, v):
    """t: name | ("NN", t) | ("LIST", t).  v: JSON value (None, bool, int, str, list, dict)."""
    if isinstance(t, tuple) and t[0] == "NN":
        if v is None:
            raise Bad("null for non-null")
        return coerce_input(schema, t[1], v)
    if v is None:
        return None
    if isinstance(t, tuple) and t[0] == "LIST":
        if isinstance(v, list):
            out = []; bad = False
            for x in v:
                try:
                    out.append(coerce_input(schema, t[1], x))
                except Bad:
                    bad = True
            if bad:
                raise Bad("item")
            return out
        return [coerce_input(schema, t[1], v)]
    td = schema[t]
    k = td["kind"]
    if k == "SCALAR":
        if t == "Int":
            if isinstance(v, bool) or not isinstance(v, int) or not (-2**31 <= v <= 2**31 - 1):
                raise Bad("Int")
            return v
        if t == "String":
            if not isinstance(v, str):
                raise Bad("String")
            return v
        if t == "Boolean":
            if not isinstance(v, bool):
                raise Bad("Boolean")
            return v
        if t == "ID":
            if isinstance(v, str):
                return v
            if isinstance(v, int) and not isinstance(v, bool):
                return str(v)
            raise Bad("ID")
        raise NotImplementedError(t)
    if k == "ENUM":
        if isinstance(v, str) and v in td["values"]:
            return v
        raise Bad("enum")
    if k == "INPUT_OBJECT":
        if not isinstance(v, dict):
            raise Bad("object expected")
        out = {}; bad = False
        for fname, (ftype, fdefault) in td["fields"].items():
            if fname in v:
                try:
                    out[fname] = coerce_input(schema, ftype, v[fname])
                except Bad:
                    bad = True
            elif fdefault is not ABSENT:
                out[fname] = fdefault
            elif isinstance(ftype, tuple) and ftype[0] == "NN":
                bad = True
        for key in v:
            if key not in td["fields"]:
                bad = True
        if bad:
            raise Bad("input object")
        return out
    raise NotImplementedError(k)

def coerce_variable(schema, t, default, provided, value):
    """returns ('absent',) | ('value', v); raises Bad"""
    if not provided:
        if default is not ABSENT:
            return ("value", default)
        if isinstance(t, tuple) and t[0] == "NN":
            raise Bad("required")
        return ("absent",)
    if value is None and isinstance(t, tuple) and t[0] == "NN":
        raise Bad("null")
    return ("value", coerce_input(schema, t, value))
