"""Reference input coercion written from the June-2018 specification text:
 §3.5.x 'Input Coercion' of each scalar, §3.9 enums, §3.10 input objects, §3.11 lists, §3.12 non-null,
 §6.1.2 CoerceVariableValues, §6.4.1 CoerceArgumentValues.  Nothing here is imported from tartiflette.

`m` is a model from vf.ref.model.  JSON values are None/bool/int/float/str/list/dict.
Custom scalars: m["custom"][name] = {"in": f(json)->value, "lit": f(node)->value}; both may raise Bad.
"""
import math
from vf.ref.model import ABSENT, is_nn, is_list

MISSING = ABSENT


class Bad(Exception):
    pass


I32_MIN, I32_MAX = -2**31, 2**31 - 1


def _is_int(v):
    return isinstance(v, int) and not isinstance(v, bool)


def scalar_in(m, t, v):
    if t == "Int":
        if _is_int(v) and I32_MIN <= v <= I32_MAX:
            return v
        if isinstance(v, float) and math.isfinite(v) and v == math.floor(v) and I32_MIN <= v <= I32_MAX:
            return int(v)      # spec latitude: an integral float may be accepted for Int
        raise Bad("Int")
    if t == "Float":
        if _is_int(v):
            try:
                f = float(v)
            except OverflowError:
                raise Bad("Float")
            return f
        if isinstance(v, float) and math.isfinite(v):
            return v
        raise Bad("Float")
    if t == "String":
        if isinstance(v, str):
            return v
        raise Bad("String")
    if t == "Boolean":
        if isinstance(v, bool):
            return v
        raise Bad("Boolean")
    if t == "ID":
        if isinstance(v, str):
            return v
        if _is_int(v):
            return str(v)
        if isinstance(v, float) and math.isfinite(v) and v == math.floor(v):
            return str(int(v))      # same latitude as Int: JSON does not tell 3.0 from 3
        raise Bad("ID")
    c = m.get("custom", {}).get(t)
    if c is None:
        raise NotImplementedError(t)
    return c["in"](v)


def scalar_lit(m, t, node):
    k = node["kind"]
    if t == "Int":
        if k == "IntValue":
            n = int(node["value"])
            if I32_MIN <= n <= I32_MAX:
                return n
        raise Bad("Int literal")
    if t == "Float":
        if k in ("IntValue", "FloatValue"):
            f = float(node["value"])
            if math.isfinite(f):
                return f
        raise Bad("Float literal")
    if t == "String":
        if k == "StringValue":
            return node["value"]
        raise Bad("String literal")
    if t == "Boolean":
        if k == "BooleanValue":
            return node["value"]
        raise Bad("Boolean literal")
    if t == "ID":
        if k == "StringValue":
            return node["value"]
        if k == "IntValue":
            return str(int(node["value"]))
        raise Bad("ID literal")
    c = m.get("custom", {}).get(t)
    if c is None:
        raise NotImplementedError(t)
    return c["lit"](node)


def coerce_input(m, t, v):
    """variable-side (JSON) input coercion"""
    if is_nn(t):
        if v is None:
            raise Bad("null for non-null")
        return coerce_input(m, t[1], v)
    if v is None:
        return None
    if is_list(t):
        if isinstance(v, list):
            out = []; bad = False
            for x in v:
                try:
                    out.append(coerce_input(m, t[1], x))
                except Bad:
                    bad = True
            if bad:
                raise Bad("list item")
            return out
        return [coerce_input(m, t[1], v)]
    td = m["types"][t]
    k = td["kind"]
    if k == "SCALAR":
        return scalar_in(m, t, v)
    if k == "ENUM":
        if isinstance(v, str) and v in td["values"]:
            return enum_value(m, t, v)
        raise Bad("enum")
    if k == "INPUT_OBJECT":
        if not isinstance(v, dict):
            raise Bad("object expected")
        out = {}; bad = False
        for fname, fd in td["fields"].items():
            if fname in v:
                try:
                    out[fname] = coerce_input(m, fd["type"], v[fname])
                except Bad:
                    bad = True
            elif fd["default"] is not ABSENT:
                out[fname] = default_value(m, fd)
            elif is_nn(fd["type"]):
                bad = True
        for key in v:
            if key not in td["fields"]:
                bad = True
        if bad:
            raise Bad("input object")
        return out
    raise Bad("not an input type")


def enum_value(m, t, name):
    return name


def default_value(m, d):
    """coerced default of an argument / input field / variable definition (from its literal)"""
    return coerce_literal(m, d["type"], d["default_ast"], {})


def coerce_literal(m, t, node, variables):
    """literal-side input coercion; `variables` = coerced variable values (absent keys = not provided).
    Returns the value or ABSENT (variable not provided) ; raises Bad."""
    k = node["kind"]
    if k == "Variable":
        name = node["name"]["value"]
        if name not in variables:
            return ABSENT
        v = variables[name]
        if v is None and is_nn(t):
            raise Bad("null variable for non-null")
        return v
    if is_nn(t):
        if k == "NullValue":
            raise Bad("null for non-null")
        return coerce_literal(m, t[1], node, variables)
    if k == "NullValue":
        return None
    if is_list(t):
        if k == "ListValue":
            out = []
            for x in node["values"] or []:
                v = coerce_literal(m, t[1], x, variables)
                if v is ABSENT:
                    if is_nn(t[1]):
                        raise Bad("missing variable in list of non-null")
                    v = None
                out.append(v)
            return out
        v = coerce_literal(m, t[1], node, variables)
        if v is ABSENT:
            return ABSENT
        return [v]
    td = m["types"][t]
    kind = td["kind"]
    if kind == "SCALAR":
        return scalar_lit(m, t, node)
    if kind == "ENUM":
        if k == "EnumValue" and node["value"] in td["values"]:
            return enum_value(m, t, node["value"])
        raise Bad("enum literal")
    if kind == "INPUT_OBJECT":
        if k != "ObjectValue":
            raise Bad("object literal expected")
        fields = {}
        for f in node["fields"] or []:
            fields[f["name"]["value"]] = f["value"]
        out = {}
        for fname, fd in td["fields"].items():
            v = ABSENT
            if fname in fields:
                v = coerce_literal(m, fd["type"], fields[fname], variables)
            if v is ABSENT:
                if fd["default"] is not ABSENT:
                    out[fname] = default_value(m, fd)
                elif is_nn(fd["type"]):
                    raise Bad("missing required input field")
            else:
                out[fname] = v
        for fname in fields:
            if fname not in td["fields"]:
                raise Bad("unknown input field")
        return out
    raise Bad("not an input type")


def coerce_variables(m, vardefs, provided):
    """§6.1.2.  vardefs: [(name, tref, default_ast|None)] ; provided: dict.  Returns dict of coerced values
    (absent = not in dict) or raises Bad with .names = offending variables."""
    out = {}; badnames = []
    for name, t, dast in vardefs:
        if name not in provided:
            if dast is not None:
                try:
                    out[name] = coerce_literal(m, t, dast, {})
                except Bad:
                    badnames.append(name)
            elif is_nn(t):
                badnames.append(name)
            continue
        v = provided[name]
        if v is None and is_nn(t):
            badnames.append(name); continue
        try:
            out[name] = coerce_input(m, t, v)
        except Bad:
            badnames.append(name)
    if badnames:
        e = Bad("variables"); e.names = badnames
        raise e
    return out


def coerce_arguments(m, argdefs, argnodes, variables):
    """§6.4.1.  argdefs: {name: A}; argnodes: list of Argument nodes (or None)."""
    given = {}
    for a in argnodes or []:
        given[a["name"]["value"]] = a["value"]
    out = {}
    for name, ad in argdefs.items():
        t = ad["type"]
        v = ABSENT
        if name in given:
            v = coerce_literal(m, t, given[name], variables)
        if v is ABSENT:
            if ad["default"] is not ABSENT:
                out[name] = default_value(m, ad)
            elif is_nn(t):
                raise Bad("missing required argument " + name)
        else:
            out[name] = v
    return out


def is_value_of_type(m, t, v):
    """is `v` a coerced value of input type t (used for 'no value of another type is ever delivered')"""
    if is_nn(t):
        return v is not None and is_value_of_type(m, t[1], v)
    if v is None:
        return True
    if is_list(t):
        return isinstance(v, list) and all(is_value_of_type(m, t[1], x) for x in v)
    td = m["types"][t]
    k = td["kind"]
    if k == "SCALAR":
        if t == "Int":
            return _is_int(v) and I32_MIN <= v <= I32_MAX
        if t == "Float":
            return isinstance(v, float) and math.isfinite(v) or _is_int(v)
        if t in ("String", "ID"):
            return isinstance(v, str)
        if t == "Boolean":
            return isinstance(v, bool)
        return True
    if k == "ENUM":
        return isinstance(v, str) and v in td["values"]
    if k == "INPUT_OBJECT":
        return isinstance(v, dict) and all(kk in td["fields"] for kk in v) and all(
            is_value_of_type(m, fd["type"], v[fn]) for fn, fd in td["fields"].items() if fn in v) and all(
            fn in v for fn, fd in td["fields"].items() if is_nn(fd["type"]))
    return False
