#!/bin/sh
ID=$1; PROP=$2
S=/var/tmp/vf-try-$ID
rm -rf $S; mkdir -p $S; git -C /repo archive HEAD tartiflette | tar -x -C $S
(cd $S && git init -q . && git apply /verif/seeded/$ID/patch.diff) || { echo "patch does not apply"; exit 9; }
cd /var/tmp/verif-snap
VF_JOBS=16 VF_REPO=$S VF_EVID=/var/tmp/vf-try-$ID-evid ./vcheck $PROP --tier quick > /var/tmp/vf-try-$ID.log 2>&1
RC=$?
echo "TRY(as-stood) $ID prop=$PROP exit=$RC $(grep -c '^VIOLATION' /var/tmp/vf-try-$ID.log) violation line(s) $(grep -c '^HARNESS-ERROR' /var/tmp/vf-try-$ID.log) harness-error line(s); $(tail -1 /var/tmp/vf-try-$ID.log)"
rm -rf $S
