import sys; sys.path.insert(0, "/verif/probes")
from typing import Optional, List
import base, chplug, miniloop2, gqlfront
from base import *
from refcoerce import coerce_variable, Bad, ABSENT
LOG = []
@Resolver("Query.probe", schema_name="p16")
async def rp(p, a, c, i):
    LOG.append(dict(a)); return "ok"
SDL = """
enum Color { RED GREEN }
input Inp { x: Int! y: [Int] = [1] c: Color = RED inner: Inp }
type Query { probe(i: Int, ni: Int!, li: [Int], lli: [[Int]], nli: [Int!]!, s: String, b: Boolean!, id: ID, c: Color, lc: [Color!], o: Inp, lo: [Inp!]): String }
"""
MODEL = {"Int": {"kind": "SCALAR"}, "String": {"kind": "SCALAR"}, "Boolean": {"kind": "SCALAR"}, "ID": {"kind": "SCALAR"},
         "Color": {"kind": "ENUM", "values": ["RED", "GREEN"]},
         "Inp": {"kind": "INPUT_OBJECT", "fields": {"x": (("NN", "Int"), ABSENT), "y": (("LIST", "Int"), [1]), "c": ("Color", "RED"), "inner": ("Inp", ABSENT)}}}
TYPES = [("i", "Int", "Int"), ("ni", "Int!", ("NN", "Int")), ("li", "[Int]", ("LIST", "Int")), ("lli", "[[Int]]", ("LIST", ("LIST", "Int"))),
         ("nli", "[Int!]!", ("NN", ("LIST", ("NN", "Int")))), ("s", "String", "String"), ("b", "Boolean!", ("NN", "Boolean")), ("id", "ID", "ID"),
         ("c", "Color", "Color"), ("lc", "[Color!]", ("LIST", ("NN", "Color"))), ("o", "Inp", "Inp"), ("lo", "[Inp!]", ("LIST", ("NN", "Inp")))]
ENG = build(SDL, "p16", query_cache_decorator=DictCache())
QS = []
for arg, tsrc, tref in TYPES:
    req = "ni: 1, nli: [1], b: true" if arg not in ("ni", "nli", "b") else ", ".join(x for x in ("ni: 1" if arg != "ni" else "", "nli: [1]" if arg != "nli" else "", "b: true" if arg != "b" else "") if x)
    q = "query($v: %s) { probe(%s: $v, %s) }" % (tsrc, arg, req)
    QS.append(q)
    miniloop2.MiniLoop().run_until_complete(ENG.execute(q, variables={}))

def pick(x, n):
    for j in range(n - 1):
        if x == j: return j
    return n - 1

def leaf(tag, n, s, b):
    # tag: 0 null 1 int 2 str 3 bool 4 enum-ish str
    if tag == 0: return None
    if tag == 1: return n
    if tag == 2: return s
    if tag == 3: return b
    return "RED"

def c04(ty: int, shape: int, t0: int, t1: int, n0: int, n1: int, s: str, b: bool, hasx: bool, hasy: bool, hasz: bool) -> bool:
    """
    pre: 0 <= ty < 12 and 0 <= shape < 6 and 0 <= t0 < 5 and 0 <= t1 < 5 and len(s) <= 2
    post: _
    """
    ty = pick(ty, 12); shape = pick(shape, 6); t0 = pick(t0, 5); t1 = pick(t1, 5)
    arg, tsrc, tref = TYPES[ty]
    a = leaf(t0, n0, s, b); c = leaf(t1, n1, s, b)
    provided = True
    if shape == 0: provided = False; val = None
    elif shape == 1: val = a
    elif shape == 2: val = [a]
    elif shape == 3: val = [a, c]
    elif shape == 4: val = [[a], c]
    else:
        val = {}
        if hasx: val["x"] = a
        if hasy: val["y"] = c
        if hasz: val["zzz"] = 1
    variables = {"v": val} if provided else {}
    del LOG[:]
    try:
        resp = miniloop2.MiniLoop().run_until_complete(ENG.execute(QS[ty], variables=variables))
    except Exception:
        return False
    try:
        exp = coerce_variable(MODEL, tref, ABSENT, provided, val)
    except Bad:
        exp = None
    if exp is None:
        return resp["data"] is None and len(resp.get("errors", [])) >= 1 and LOG == []
    if resp.get("errors"):
        return False
    got = LOG[0]
    if exp == ("absent",):
        return arg not in got
    return arg in got and got[arg] == exp[1]
