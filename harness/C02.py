"""C02 — field failures are contained: null propagation to the nearest nullable position, error accounting,
paths, locations, user message/extensions preserved.  (DESIGN §4 C02)"""
from typing import Optional
from vf import env, world
from vf.env import pick, verdict, observe, safe
from vf.ob import obligation, shard, finding_open
from vf.ref.execute import Ref, to_pairs, errors_ok, locations_ok
from vf import gqlfront
from tartiflette import TartifletteError

META = {
    "bounds": "schema X in all 8 nullability layouts of (Leaf.n, Mid.leaf, [Leaf] item); 5 documents; every single fault point of the request "
              "(list indices included) x 10 failure kinds; pairs of faults in the thorough tier; leaf payload: unbounded int",
    "outside": "more than two simultaneous faults; documents outside the catalogue; message wording of engine-made errors",
    "explanation": "Oracle: reference null-propagation (vf/ref/execute.py) with the error-set latitude of DESIGN §4 C02 (errors ⊆ E_max, ≥1 cause per nulled position).",
}


class MyErr(TartifletteError):
    pass


SHARED = [None]      # one exception instance per request, raised at every kind-8 fault point of that request


def apply_fault(kind, payload):
    def f(parent, fname):
        if kind == 0:
            raise ValueError("boom")
        if kind == 1:
            raise MyErr("user msg", extensions={"code": 7})
        if kind == 2:
            return ValueError("as value")
        if kind == 3:
            return None
        if kind == 4:
            return "not-a-number"          # unserialisable for Int/Boolean leaves, non-list for lists
        if kind == 5:
            return {"_typename": "Zzz", "id": "z"}     # unknown runtime type (abstract positions)
        if kind == 6:
            return {"_typename": "C", "x": 1, "id": "c"}   # foreign (not possible) runtime type
        if kind == 7:
            return payload                   # an int: out of 32-bit range or fine, solver's choice
        if kind == 8:
            raise SHARED[0]                  # the same exception instance at every fault point
        if kind == 9:
            # a list whose second item is an error object (e.g. the result of gather(..., return_exceptions=True))
            first = world.read(parent, fname)
            first = first[0] if isinstance(first, list) and first else None
            return [first, MyErr("item msg", extensions={"code": 5})]
        raise AssertionError(kind)
    return f


NK = 10
DOCS = {
    "Q1": "{ n mid { n leaf { n } leaves { n } } mids { leaf { n } } }",
    "Q2": "{ node { id ... on A { n peer { id } } } us { ... on A { n } ... on B { flag } } nn nodes { id } }",
    "Q3": "{ x: mid { ...G } mid { leaf { n } }\n  mid { leaf { s } } }\nfragment G on Mid { n leaf { s } }",
    "Q4": "mutation { a: set(v: 1) bump deep { leaf { n } leaves { n } } other }",
    "Q5": "{ mids { leaves { n s } } nn }",
}
ASTS = {k: gqlfront.parse(v) for k, v in DOCS.items()}
ENGS = {b: world.make_engine("c02_%d" % b, b, "univ") for b in range(8)}
ENGS_SEQ = {b: world.make_engine("c02s_%d" % b, b, "univ", coerce_list_concurrently=False, coerce_parent_concurrently=False) for b in (0, 7)}
MODELS = {b: world.model(b) for b in range(8)}
LEAF = {"n": 3, "s": "s", "b": True}
MID = {"n": 2, "leaf": LEAF, "leaves": [LEAF, dict(LEAF)]}
NODE_A = {"_typename": "A", "id": "a", "n": 1, "peer": {"_typename": "B", "id": "b", "flag": True}}
NODE_B = {"_typename": "B", "id": "b2", "flag": False}
DATA = {"n": 1, "nn": 4, "mid": MID, "mids": [MID, dict(MID)], "node": NODE_A, "us": [NODE_A, NODE_B], "nodes": [NODE_B, NODE_A],
        "bump": 5, "deep": MID, "other": 6}
for e in list(ENGS.values()) + list(ENGS_SEQ.values()):
    for q in DOCS.values():
        env.run(e.execute(q, initial_value=DATA))


def _points(doc):
    from vf.ref.model import named
    world.reset()
    r = Ref(MODELS[0], ASTS[doc], world.ref_resolve, world.typeof_default)
    r.execute(None, {}, DATA)
    from vf.ref.model import tstr
    return ([c[0] for c in r.calls], [MODELS[0]["types"][named(MODELS[0]["types"][c[1]]["fields"][c[2]]["type"])]["kind"] for c in r.calls],
            ["[" in tstr(MODELS[0]["types"][c[1]]["fields"][c[2]]["type"]) for c in r.calls],
            [named(MODELS[0]["types"][c[1]]["fields"][c[2]]["type"]) for c in r.calls])


_P = {d: _points(d) for d in DOCS}
POINTS = {d: _P[d][0] for d in DOCS}
POINT_KIND = {d: _P[d][1] for d in DOCS}      # kind of the named type at each fault point
POINT_LIST = {d: _P[d][2] for d in DOCS}      # is the field list-typed
POINT_NAME = {d: _P[d][3] for d in DOCS}      # named type of the field


def meaningless(doc, k, kind):
    """a dict returned for a scalar leaf: String result coercion of arbitrary objects is implementation latitude (C03's subject);
    the list-with-an-error-item kind only makes sense where a list is declared"""
    if kind == 9:
        return not POINT_LIST[doc][k]
    return kind in (5, 6) and POINT_KIND[doc][k] == "SCALAR"


def run_case(eng, model, doc, faults):
    world.reset()
    world.FAULTS.update(faults)
    SHARED[0] = MyErr("shared msg", extensions={"code": 9})
    ok, resp = safe(lambda: env.run(eng.execute(DOCS[doc], initial_value=DATA)))
    observe(resp)
    if not ok:
        return False
    ref = Ref(model, ASTS[doc], world.ref_resolve, world.typeof_default)
    exp = ref.execute(None, {}, DATA)
    observe(("expected", exp, ref.errors, ref.nulled))
    if to_pairs(resp.get("data")) != exp:
        return False
    if not errors_ok(resp, ref) or not locations_ok(resp, ref):
        return False
    return resp


def user_error_kept(resp, path, msg, code):
    for e in resp.get("errors", []):
        if tuple(e["path"]) == path:
            if e["message"] == msg and e.get("extensions") == {"code": code}:
                return True
    return False


def _shards():
    out = []
    for d in DOCS:
        for b in range(8):
            for part in (0, 1, 2):
                out.append({"doc": d, "bits": b, "seq": False, "part": part})
    out += [{"doc": "Q1", "bits": 7, "seq": True}, {"doc": "Q5", "bits": 0, "seq": True}, {"doc": "Q4", "bits": 7, "seq": True}]
    return out


SHARDS = _shards()
QUICK = [i for i, s in enumerate(SHARDS) if s["doc"] == "Q1" or s["bits"] in (0,) or (s["doc"] in ("Q3", "Q5") and s["bits"] == 7) or s["seq"]]


@obligation(tier="quick", timeout=360, thorough_timeout=900, shards=SHARDS, quick_shards=QUICK,
            samples=[{"k": 3, "kind": 1, "payload": 0}, {"k": 5, "kind": 4, "payload": 2**31}],
            symbolic=["payload: int (unbounded) returned at the fault point"],
            selectors=["k: fault point over every field instance of the request", "kind: 0..9", "shard: document, nullability layout, sequential/concurrent coercion"],
            bounds="single fault; 5 documents x 8 layouts (+3 sequential-coercion engines)",
            note="every single fault point x failure kind: data == reference propagation, error set within latitude, paths, locations in the field's text, user message/extensions kept")
def c02_single(k: int, kind: int, payload: int) -> bool:
    """
    post: _
    """
    sh = shard()
    doc, bits = sh["doc"], sh["bits"]
    pts = POINTS[doc]
    if "part" in sh:            # fault points split in three parts per shard
        n3 = (len(pts) + 2) // 3
        lo = sh["part"] * n3
        k = lo + pick(k, max(1, min(n3, len(pts) - lo)))
        if k >= len(pts):
            return True
    else:
        k = pick(k, len(pts))
    kind = pick(kind, NK)
    if meaningless(doc, k, kind):
        return True
    if kind == 7 and POINT_NAME[doc][k] in ("String", "ID"):
        payload = 2 ** 31 if payload > 0 else -5      # str(<symbolic int>) is CPython's int rendering: two concrete representatives
    eng = (ENGS_SEQ if sh["seq"] else ENGS)[bits]
    resp = run_case(eng, MODELS[bits], doc, {pts[k]: apply_fault(kind, payload)})
    if resp is False:
        return verdict(False)
    if kind == 1 and not user_error_kept(resp, pts[k], "user msg", 7):
        return verdict(False)
    if kind == 8 and not user_error_kept(resp, pts[k], "shared msg", 9):
        return verdict(False)
    if kind == 9 and not user_error_kept(resp, pts[k] + (1,), "item msg", 5):
        return verdict(False)
    return verdict(True)


# the first fault point is split in three parts per shard so that every shard's path tree is exhausted inside its budget (a whole document x layout
# x first-kind took > 60 CPU-minutes and ended inconclusive)
PAIR_SHARDS = [{"doc": d, "bits": b, "seq": False, "kind": kd, "part": pt} for d in ("Q1", "Q3", "Q5") for b in (0, 7) for kd in (0, 3, 8) for pt in (0, 1, 2)]


PAIR_KINDS2 = list(range(NK))      # second fault: all 10 kinds


@obligation(tier="thorough", timeout=900, shards=PAIR_SHARDS,
            samples=[{"k1": 1, "k2": 4, "kind2": 1, "payload": 0}, {"k1": 0, "k2": 7, "kind2": 2, "payload": 2 ** 31}],
            symbolic=["payload: int"], selectors=["k1, k2: two fault points", "kind2: 0..9", "shard: document, layout, kind of the first fault, third of the first fault points"],
            bounds="pairs of faults; 3 documents x 2 layouts x 3 first-fault kinds (raise, null, shared exception instance), every ordered pair of fault points x 10 second kinds", findings=["F7"],
            note="two simultaneous faults, incl. the same exception instance raised at two positions (kind 8)")
def c02_pair(k1: int, k2: int, kind2: int, payload: int) -> bool:
    """
    post: _
    """
    sh = shard()
    doc, bits = sh["doc"], sh["bits"]
    pts = POINTS[doc]
    n3 = (len(pts) + 2) // 3 if "part" in sh else len(pts)
    lo = sh.get("part", 0) * n3
    k1 = lo + pick(k1, max(1, min(n3, len(pts) - lo))); k2 = pick(k2, len(pts)); kind2 = PAIR_KINDS2[pick(kind2, len(PAIR_KINDS2))]
    if k1 == k2 or k1 >= len(pts):
        return True
    if sh["kind"] == 8 and kind2 == 8 and finding_open("F7"):
        return True
    if meaningless(doc, k2, kind2):
        return True
    if kind2 == 7 and POINT_NAME[doc][k2] in ("String", "ID"):
        payload = 2 ** 31 if payload > 0 else -5      # str(<symbolic int>) realises one path per value (this is what made these shards run past an hour): two representatives, as in c02_single
    eng = ENGS[bits]
    resp = run_case(eng, MODELS[bits], doc, {pts[k1]: apply_fault(sh["kind"], payload), pts[k2]: apply_fault(kind2, payload)})
    if resp is False:
        return verdict(False)
    if kind2 == 1 and any(tuple(e["path"]) == pts[k2] for e in resp.get("errors", [])) and not user_error_kept(resp, pts[k2], "user msg", 7):
        return verdict(False)
    return verdict(True)


# ---- a null that is PRODUCED during completion (not returned by the resolver): a custom scalar whose coerce_output answers None, a type-level
# on_pre_output_coercion hook answering None — at nullable / non-null positions, directly and as list items -------------------------------
from vf.ref.model import model_from_sdl  # noqa: E402
from vf.env import build, pickb  # noqa: E402
from tartiflette import Scalar, Directive  # noqa: E402

SDL_N = """
directive @mask on OBJECT
scalar Code
type Profile @mask { bio: String }
type User { code: Code! ncode: Code profile: Profile! nprofile: Profile codes: [Code!] ncodes: [Code] profiles: [Profile!] id: Int }
type Query { user: User  strict: User!  users: [User]  nn: Int }
"""
MODEL_N = model_from_sdl(SDL_N)


def _code_out(v):
    # "blank to null": negative numbers have no code
    if isinstance(v, int) and v < 0:
        return None
    return v


MODEL_N["custom"] = {"Code": {"out": _code_out}}


class _Code:
    def coerce_output(self, v):
        return _code_out(v)

    def coerce_input(self, v):
        return v

    def parse_literal(self, ast):
        return getattr(ast, "value", None)


class _Mask:
    async def on_pre_output_coercion(self, directive_args, next_directive, value, ctx, info):
        if isinstance(value, dict) and value.get("hidden"):
            return None
        return await next_directive(value, ctx, info)


async def _res_n(parent, args, ctx, info):
    return world.read(parent, info.field_name)


def _ref_resolve_n(ptype, fname, parent, args, path):
    v = world.read(parent, fname)
    # the type-level hook of Profile turns a hidden profile into null before completion: for the reference that IS the resolved value
    if fname in ("profile", "nprofile") and isinstance(v, dict) and v.get("hidden"):
        return None
    if fname == "profiles" and isinstance(v, list):
        return [None if isinstance(x, dict) and x.get("hidden") else x for x in v]
    return v


ENGS_N = []
for _i, _kw in enumerate(({}, {"coerce_list_concurrently": False, "coerce_parent_concurrently": False})):
    _nm = "c02n_%d" % _i
    Scalar("Code", schema_name=_nm)(_Code)
    Directive("mask", schema_name=_nm)(_Mask())
    ENGS_N.append(build(SDL_N, _nm, custom_default_resolver=_res_n, query_cache_decorator=None, **_kw))
DOC_N = "{ user { id %s } strict { id %s } users { id %s } nn }"
SITES_N = ["code", "ncode", "profile { bio }", "nprofile { bio }", "codes", "ncodes", "profiles { bio }"]
ASTS_N = {(s, w): gqlfront.parse(DOC_N % tuple(SITES_N[s] if i == w else "" for i in range(3))) for s in range(len(SITES_N)) for w in range(3)}


def _user(site, payload, hidden):
    prof = {"bio": "b", "hidden": hidden}
    return {"id": 1, "code": payload, "ncode": payload, "profile": prof, "nprofile": prof, "codes": [1, payload, 2], "ncodes": [payload, 1],
            "profiles": [{"bio": "x", "hidden": False}, prof]}


@obligation(tier="quick", timeout=200, shards=[{"site": s, "eng": e} for s in range(len(SITES_N)) for e in range(2)],
            samples=[{"payload": 5, "hidden": False, "where": 0}, {"payload": -1, "hidden": True, "where": 1}, {"payload": -7, "hidden": True, "where": 2}],
            symbolic=["payload: int (unbounded) — the custom scalar's coerce_output answers null for negative values", "hidden: bool — the type-level output hook answers null"],
            selectors=["where: under the nullable `user`, the non-null `strict`, the list `users`", "shard: position (T!, T, object!, object, [T!], [T], [object!]), concurrent/sequential coercion"],
            bounds="7 positions x 3 parents x 2 engines",
            note="a null produced DURING completion (custom scalar coerce_output / type-level hook answering null) at a non-null position is a field error that propagates to the nearest nullable "
                 "ancestor exactly like a resolver returning null; at a nullable position it is simply null")
def c02_coerced_null(payload: int, hidden: bool, where: int) -> bool:
    """
    post: _
    """
    sh = shard()
    where = pick(where, 3)
    hidden = pickb(hidden)
    u = _user(sh["site"], payload, hidden)
    data = {"user": u, "strict": u, "users": [dict(u, id=2), u], "nn": 4}
    text = DOC_N % tuple(SITES_N[sh["site"]] if i == where else "" for i in range(3))
    ast = ASTS_N[(sh["site"], where)]
    ok, resp = safe(lambda: env.run(ENGS_N[sh["eng"]].execute(text, initial_value=data)))
    observe(text, resp)
    if not ok:
        return verdict(False)
    ref = Ref(MODEL_N, ast, _ref_resolve_n, None)
    exp = ref.execute(None, {}, data)
    observe(("expected", exp, ref.errors, ref.nulled))
    if to_pairs(resp.get("data")) != exp:
        return verdict(False)
    return verdict(errors_ok(resp, ref) and locations_ok(resp, ref))


# ---- the same failing request twice on one engine, and the same failure at two positions of one request: a failure is never "learnt" -----------
def _two_foreign(parent, fname):
    return [{"_typename": "C", "x": 1, "id": "c1"}, {"_typename": "C", "x": 2, "id": "c2"}]      # two items of the same foreign (not possible) runtime type


@obligation(tier="quick", timeout=300, shards=[{"doc": d, "bits": b} for d in ("Q2", "Q1") for b in (0, 7)],
            samples=[{"k": 1, "kind": 6, "payload": 0}, {"k": 3, "kind": 5, "payload": 1}, {"k": 0, "kind": 10, "payload": 0}],
            symbolic=["payload: int (unbounded) returned at the fault point (kind 7)"],
            selectors=["k: fault point", "kind: 0..9 as c02_single, 10: a list whose two items have the same foreign runtime type", "shard: document, nullability layout"],
            bounds="2 documents x 2 layouts; the request is executed twice",
            note="the same failing request executed twice on one engine: BOTH responses equal the reference propagation (an unknown / foreign runtime type, an unserialisable value... is refused "
                 "every time it occurs, in one request and in the next)")
def c02_repeat(k: int, kind: int, payload: int) -> bool:
    """
    post: _
    """
    sh = shard()
    doc, bits = sh["doc"], sh["bits"]
    pts = POINTS[doc]
    k = pick(k, len(pts)); kind = pick(kind, NK + 1)
    if kind == 10:
        if not (POINT_LIST[doc][k] and POINT_KIND[doc][k] in ("INTERFACE", "UNION")):
            return True
        fault = _two_foreign
    else:
        if meaningless(doc, k, kind):
            return True
        if kind == 7 and POINT_NAME[doc][k] in ("String", "ID"):
            payload = 2 ** 31 if payload > 0 else -5
        fault = apply_fault(kind, payload)
    for _rep in range(2):
        resp = run_case(ENGS[bits], MODELS[bits], doc, {pts[k]: fault})
        if resp is False:
            return verdict(False)
    return verdict(True)


# ---- two faults under one root field (items of one list, siblings of one object, cousins): quick-tier companion of c02_pair ------------------
TWO = [("Q1", 6, 7), ("Q1", 2, 4), ("Q1", 10, 12), ("Q1", 4, 6), ("Q5", 2, 3), ("Q5", 4, 9), ("Q5", 3, 8), ("Q2", 6, 7), ("Q2", 10, 11), ("Q2", 1, 4), ("Q1", 0, 12), ("Q5", 2, 11)]


@obligation(tier="quick", timeout=300, shards=[{"bits": b, "lo": lo} for b in (0, 7) for lo in (0, 4, 8)],
            samples=[{"p": 0, "kind1": 0, "kind2": 3, "payload": 0}, {"p": 1, "kind1": 1, "kind2": 0, "payload": 2 ** 31}, {"p": 2, "kind1": 4, "kind2": 1, "payload": -1}],
            symbolic=["payload: int (unbounded) returned at a kind-7 fault point"],
            selectors=["p: pair of fault points (two items of one list, two siblings, parent/cousin positions, different root fields; 4 per shard)", "kind1, kind2: raise / user error / null / garbage / int payload", "shard: layout"],
            bounds="12 pairs of fault points x 5 x 5 failure kinds x 2 layouts",
            note="two simultaneous faults: data == reference propagation and EVERY error entry carries the response path of its own failing field (list indices included), user messages/extensions kept")
def c02_two(p: int, kind1: int, kind2: int, payload: int) -> bool:
    """
    post: _
    """
    sh = shard()
    doc, k1, k2 = TWO[sh["lo"] + pick(p, 4)]
    KINDS = [0, 1, 3, 4, 7]
    kind1 = KINDS[pick(kind1, 5)]; kind2 = KINDS[pick(kind2, 5)]
    pts = POINTS[doc]
    for k, kd in ((k1, kind1), (k2, kind2)):
        if meaningless(doc, k, kd):
            return True
    if 7 in (kind1, kind2) and any(POINT_NAME[doc][k] in ("String", "ID") for k in (k1, k2)):
        payload = 2 ** 31 if payload > 0 else -5
    bits = sh["bits"]
    resp = run_case(ENGS[bits], MODELS[bits], doc, {pts[k1]: apply_fault(kind1, payload), pts[k2]: apply_fault(kind2, payload)})
    if resp is False:
        return verdict(False)
    for k, kd in ((k1, kind1), (k2, kind2)):
        if kd == 1 and any(tuple(e["path"]) == pts[k] for e in resp.get("errors", [])) and not user_error_kept(resp, pts[k], "user msg", 7):
            return verdict(False)
    return verdict(True)


# ---- lists of lists whose levels differ in nullability: the null lands on exactly the nearest nullable position ----------------------------------------
SDL_L = """
type Row { n: Int! s: String }
type Query { m1: [[Int!]]  m2: [[Int]!]  m3: [[Int!]!]  m4: [[Int]]  m5: [[Int!]!]!  r1: [[Row!]]  r2: [[Row]!]  keep: Int }
"""
MODEL_L = model_from_sdl(SDL_L)
ENGS_L = [build(SDL_L, "c02l_%d" % _i, custom_default_resolver=_res_n, query_cache_decorator=None, **_kw)
          for _i, _kw in enumerate(({}, {"coerce_list_concurrently": False, "coerce_parent_concurrently": False}))]
FIELDS_L = ["m1", "m2", "m3", "m4", "m5", "r1", "r2"]
ASTS_L = {f: gqlfront.parse("{ keep %s%s }" % (f, " { n s }" if f.startswith("r") else "")) for f in FIELDS_L}


def _ref_resolve_l(ptype, fname, parent, args, path):
    return world.read(parent, fname)


@obligation(tier="quick", timeout=200, shards=[{"f": f, "eng": e} for f in FIELDS_L for e in range(2)],
            samples=[{"where": 0, "bad": 0, "payload": 5}, {"where": 2, "bad": 1, "payload": 2 ** 31}, {"where": 4, "bad": 2, "payload": -1}],
            symbolic=["payload: int (unbounded) — placed at the chosen leaf (out of range = unserialisable)"],
            selectors=["where: none / an item of the first inner list / of the second / a whole inner list / the outer list", "bad: null / a non-list or non-object / the int payload", "shard: declared list-of-lists type, concurrent or sequential coercion"],
            bounds="7 list-of-lists layouts ([[T!]], [[T]!], [[T!]!], [[T]], [[T!]!]!, with scalar and object items) x 5 positions x 3 kinds x 2 engines",
            note="a failure at any level of a list of lists nulls exactly the nearest nullable position (item, inner list, outer list, field or data) — data == reference propagation, errors explained")
def c02_nested_lists(where: int, bad: int, payload: int) -> bool:
    """
    post: _
    """
    sh = shard()
    f = sh["f"]
    where = pick(where, 5); bad = pick(bad, 3)
    isrow = f.startswith("r")
    leaf = (lambda v: {"n": v, "s": "x"}) if isrow else (lambda v: v)
    badv = None if bad == 0 else ("garbage" if bad == 1 else payload)
    inner_bad = None if bad == 0 else ("not-a-list" if bad == 1 else payload)
    m = [[leaf(1), leaf(2)], [leaf(3)]]
    if where == 1:
        m[0][1] = leaf(badv) if (isrow and bad == 2) else (badv if not isrow else (None if bad == 0 else "not-an-object"))
    elif where == 2:
        m[1][0] = leaf(badv) if (isrow and bad == 2) else (badv if not isrow else (None if bad == 0 else "not-an-object"))
    elif where == 3:
        m[0] = inner_bad
    elif where == 4:
        m = inner_bad
    data = {"keep": 7, f: m}
    text = "{ keep %s%s }" % (f, " { n s }" if isrow else "")
    ok, resp = safe(lambda: env.run(ENGS_L[sh["eng"]].execute(text, initial_value=data)))
    observe(text, data, resp)
    if not ok:
        return verdict(False)
    ref = Ref(MODEL_L, ASTS_L[f], _ref_resolve_l, None)
    exp = ref.execute(None, {}, data)
    observe(("expected", exp, ref.errors, ref.nulled))
    if to_pairs(resp.get("data")) != exp:
        return verdict(False)
    return verdict(errors_ok(resp, ref) and locations_ok(resp, ref))
