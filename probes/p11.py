import sys; sys.path.insert(0, "/verif/probes")
import asyncio
import base, chplug, miniloop2
from base import *
EV = []
def mk(name, val):
    @Resolver(name, schema_name="p11")
    async def r(p, args, ctx, info):
        EV.append(("start", name)); await miniloop2.gate(name); EV.append(("end", name))
        if val is None: raise ValueError("boom")
        return val
for n, v in (("Query.a", 1), ("Query.b", None), ("Query.c", [1, 2]), ("Query.o", {"x": 1, "y": 2}), ("O.x", 5), ("O.y", 6)):
    mk(n, v)
ENG = build("type O { x: Int y: Int } type Query { a: Int b: Int c: [Int] o: O }", "p11", query_cache_decorator=DictCache())
Q = "{ a b c o { x y } }"
REF = miniloop2.MiniLoop().run_until_complete(ENG.execute(Q))
def chk(c0: int, c1: int, c2: int, c3: int, c4: int, c5: int) -> bool:
    """
    pre: 0 <= c0 < 4 and 0 <= c1 < 4 and 0 <= c2 < 4 and 0 <= c3 < 4 and 0 <= c4 < 4 and 0 <= c5 < 4
    post: _
    """
    cs = [c0, c1, c2, c3, c4, c5]; k = [0]
    def chooser(n):
        x = cs[k[0]] if k[0] < len(cs) else 0
        k[0] += 1
        for j in range(n - 1):
            if x == j: return j
        return n - 1
    del EV[:]
    loop = miniloop2.MiniLoop(chooser)
    r = loop.run_until_complete(ENG.execute(Q))
    alldone = all(t.done() for t in loop.tasks) and not loop.pending
    return r == REF and alldone
