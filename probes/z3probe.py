import sys, time, os
os.environ.setdefault("LIBGRAPHQLPARSER_DIR", "/verif/probes/lib")
sys.path.insert(0, os.environ.get("VF_REPO", "/repo")); sys.path.insert(0, "/verif/probes")
import z3
import py2smt
from py2smt import SVal, F64, translate
from tartiflette.scalar.builtins.int import ScalarInt
from tartiflette.scalar.builtins.float import ScalarFloat
from tartiflette.utils.values import is_integer

def accepted(outs):
    return z3.Or([g for g, r in outs if r[0] == "ret"] or [z3.BoolVal(False)])

def prove(name, *fmls):
    s = z3.Solver(); s.set("timeout", 60000)
    s.add(*fmls)
    t = time.time(); r = s.check()
    print(f"{name}: {r} ({time.time()-t:.2f}s)", (s.model() if str(r) == "sat" else ""))

# --- Int.coerce_input, int kind: accepted <=> in range, result == v
v = z3.Int("v")
outs = translate(ScalarInt.coerce_input, [SVal("int", v)])
print("outcomes:", [(str(g)[:60], r[0], r[1] if r[0]=="raise" else r[1].kind) for g, r in outs])
acc = accepted(outs)
spec = z3.And(v >= -2**31, v <= 2**31 - 1)
prove("Int.in/int acc<=>range", acc != spec)
prove("Int.in/int result==v", z3.Or([z3.And(g, r[1].t != v) for g, r in outs if r[0] == "ret"]))
# --- float kind
f = z3.FP("f", F64)
outs = translate(ScalarInt.coerce_input, [SVal("float", f)])
print("outcomes:", [(str(g)[:60], r[0], r[1] if r[0]=="raise" else r[1].kind) for g, r in outs])
acc = accepted(outs)
k = z3.fpToSBV(z3.RTZ(), f, z3.BitVecSort(64))
spec = z3.And(z3.Not(z3.fpIsNaN(f)), z3.Not(z3.fpIsInf(f)), z3.fpEQ(z3.fpSignedToFP(z3.RNE(), k, F64), f), k >= -2**31, k <= 2**31 - 1,
              z3.fpLT(f, z3.FPVal(2.0**62, F64)), z3.fpGT(f, z3.FPVal(-2.0**62, F64)))
prove("Int.in/float acc=>spec", acc, z3.Not(spec))
prove("Int.in/float spec=>acc", spec, z3.Not(acc))
prove("Int.in/float result==k", z3.Or([z3.And(g, r[1].t != z3.BV2Int(k, is_signed=True)) for g, r in outs if r[0] == "ret"]))
# bool / none kinds
for kind, val in (("bool", z3.Bool("b")), ("none", None)):
    outs = translate(ScalarInt.coerce_input, [SVal(kind, val)])
    prove(f"Int.in/{kind} refused", accepted(outs))
# Float.coerce_input float kind: accepted <=> finite; result == f
outs = translate(ScalarFloat.coerce_input, [SVal("float", f)])
fin = z3.And(z3.Not(z3.fpIsNaN(f)), z3.Not(z3.fpIsInf(f)))
prove("Float.in/float acc<=>finite", accepted(outs) != fin)
outs = translate(ScalarFloat.coerce_input, [SVal("bool", z3.Bool("b"))])
prove("Float.in/bool refused", accepted(outs))
# Int.coerce_output
outs = translate(ScalarInt.coerce_output, [SVal("float", f)])
print("outcomes:", [(str(g)[:50], r[0], r[1] if r[0]=="raise" else r[1].kind) for g, r in outs])
