import sys; sys.path.insert(0, "/verif/probes")
from typing import Union, Optional, List, Dict, Tuple
import base, chplug, miniloop
from base import *
LOG = []
@Resolver("Query.e", schema_name="p8")
async def re_(p, args, ctx, info):
    LOG.append(args)
    return 1
CACHE = DictCache()
ENG = build("type Query { a: Int b: Int e(i: Int): Int }", "p8", query_cache_decorator=CACHE)
Q = "query A { a } query B { b }"
miniloop.run(ENG.execute(Q, operation_name="A"))

def chk_op(op: Optional[str]) -> dict:
    """
    post: (_["data"] is not None) == (op == "A" or op == "B")
    """
    return miniloop.run(ENG.execute(Q, operation_name=op))

def chk_lit(s: str) -> bool:
    """
    pre: 1 <= len(s) <= 2 and all(c in "0123456789" for c in s)
    post: _
    """
    # literal text s vs variable int(s)
    del LOG[:]
    ast = gqlfront.parse("{ e(i: 7) }")
    ast["definitions"][0]["selectionSet"]["selections"][0]["arguments"][0]["value"]["value"] = s
    import tartiflette.language.parsers.libgraphqlparser.parser as pp
    old = pp._parse_to_json_ast
    pp._parse_to_json_ast = lambda q: ast
    try:
        r1 = miniloop.run(ENG.execute("{ e(i: %s) } #" ))
    finally:
        pp._parse_to_json_ast = old
    a1 = LOG[-1] if LOG else None
    return a1 == {"i": int(s)}
