import sys; sys.path.insert(0, "/verif/probes")
import chplug
from crosshair.core_and_libs import analyze_function, run_checkables, MessageType
from crosshair.options import AnalysisOptionSet, AnalysisKind
import p8, p9
opts = AnalysisOptionSet(per_condition_timeout=60, analysis_kind=[AnalysisKind.PEP316], report_all=True, report_verbose=False)
for fn in (p8.chk_op, p9.chk_frag):
    for m in run_checkables(analyze_function(fn, opts)):
        print(fn.__name__, m.state, repr(m.message)[:300])
