"""The execution catalogue shared by C01-C03, C08, C09, C14-C16, C18 (DESIGN Appendix A.1): schema X (objects, lists,
non-null, interface/union/enum/custom scalar, arguments, mutation, subscription), its engines (built concretely at
import) and data trees assembled from symbolic leaves."""
import itertools
from vf import env
from vf.env import build, DictCache
from vf.ref.model import model_from_sdl
from tartiflette import Resolver, TypeResolver, Scalar, Subscription

SDL_T = """
interface Node {{ id: ID! owner: Leaf }}
type A implements Node {{ id: ID! owner: Leaf n: Int peer: Node color: Color }}
type B implements Node {{ id: ID! owner: Leaf flag: Boolean }}
type C {{ x: Int }}
union U = A | B
enum Color {{ RED GREEN }}
scalar My
type Leaf {{ n: Int{L} s: String b: Boolean i: ID f: Float my: My }}
type Mid {{ leaf: Leaf{M} leaves: [Leaf{I}] n: Int }}
type Query {{
  node: Node u: U nodes: [Node] us: [U!] a: A color: Color mid: Mid mids: [Mid] n: Int nn: Int!
  echoInt(v: Int): Int echoStr(v: String = "d"): String sum(a: Int!, b: Int = 2): Int
}}
type Mutation {{ set(v: Int): Int bump: Int! deep: Mid{M} other: Int }}
type Subscription {{ tick(n: Int): Int ev: Mid }}
"""


def sdl(bits=0):
    return SDL_T.format(L="!" if bits & 1 else "", M="!" if bits & 2 else "", I="!" if bits & 4 else "")


def _my_in(v):
    return v


CUSTOM = {"My": {"in": lambda v: v, "lit": lambda node: node["value"], "out": lambda v: v}}


def model(bits=0):
    m = model_from_sdl(sdl(bits))
    m["custom"] = CUSTOM
    return m


# ---- per-path state ------------------------------------------------------------------------------------
LOG = []          # (path tuple, parent, args, ctx) appended by every logging resolver
FAULTS = {}       # path tuple -> thunk(parent, field) used by the universal resolver
GATES = {}        # path tuple -> True: resolver awaits a MiniLoop gate before returning


def reset():
    del LOG[:]
    FAULTS.clear()
    GATES.clear()


def read(parent, name):
    """what the specification calls 'the same-named key or attribute of the parent' (reference side)"""
    if parent is None:
        return None
    if isinstance(parent, dict):
        return parent.get(name)
    return getattr(parent, name, None)


def behave(ptype, fname, parent, args):
    """what the harness resolvers compute (shared by the real resolvers and the reference data source)"""
    if fname in ("echoInt", "echoStr", "set") and ptype in ("Query", "Mutation"):
        return args.get("v")
    if fname == "sum" and ptype == "Query":
        b = args.get("b")
        return args["a"] + b if b is not None else args["a"]
    return read(parent, fname)


async def universal(parent, args, ctx, info):
    """custom_default_resolver (public option): logs the call, applies an injected fault, otherwise `behave`"""
    p = tuple(info.path.as_list())
    LOG.append((p, parent, args, ctx))
    if p in GATES:
        from vf import miniloop
        await miniloop.gate(p)
        LOG.append((p, "end"))
    if p in FAULTS:
        return FAULTS[p](parent, info.field_name)
    return behave(info.parent_type.name, info.field_name, parent, args)


class MyScalar:
    def coerce_output(self, v):
        return v

    def coerce_input(self, v):
        return v

    def parse_literal(self, ast):
        return ast.value


def _tr_node(result, ctx, info, abstract_type):
    return read(result, "tr_node")


def _tr_field(result, ctx, info, abstract_type):
    return read(result, "tr_field")


def _tr_default(result, ctx, info, abstract_type):
    """custom_default_type_resolver (public engine option): used where neither a field-level nor a type-level resolver exists"""
    return read(result, "tr_default")


LOGGED_PLAIN = ("Query.echoInt", "Query.echoStr", "Query.sum", "Mutation.set", "Query.node", "A.n", "Mid.leaves", "Query.mids")


def make_engine(name, bits=0, kind="univ", typeres=False, **kw):
    """kind: 'univ' = every field through the logging universal resolver (custom_default_resolver);
    'plain' = tartiflette's own default resolver everywhere except the LOGGED_PLAIN fields."""
    Scalar("My", schema_name=name)(MyScalar)
    if kind == "plain":
        for f in LOGGED_PLAIN:
            if not (typeres and f == "Query.node"):
                Resolver(f, schema_name=name)(universal)
    if typeres:
        TypeResolver("Node", schema_name=name)(_tr_node)
        Resolver("Query.u", schema_name=name, type_resolver=_tr_field)(universal)
        # a field-level type resolver on a field whose abstract type ALSO has a type-level one: the most specific (field-level) decides
        Resolver("Query.node", schema_name=name, type_resolver=_tr_field)(universal)
    if kind == "univ":
        kw.setdefault("custom_default_resolver", universal)
    kw.setdefault("query_cache_decorator", DictCache())
    two_step = kw.pop("two_step", None)
    if two_step:
        from vf.env import build_two_step
        return build_two_step(sdl(bits), name, two_step, **kw)
    return build(sdl(bits), name, **kw)


def ref_resolve(ptype, fname, parent, args, path):
    """data source for the reference executor"""
    if path in FAULTS:
        return FAULTS[path](parent, fname)
    return behave(ptype, fname, parent, args)


class Obj:
    """attribute-style parent (default resolver reads attributes first)"""
    def __init__(self, d):
        self.__dict__.update(d)


class A(Obj):
    pass


class B(Obj):
    pass


def wrap(d, tname, tn, wrong=None):
    """name the runtime type in one of the three documented ways"""
    if tn == 0:
        d = dict(d); d["_typename"] = tname
        return d
    if tn == 1:
        d = dict(d); d["_typename"] = tname
        return Obj(d)
    return (A if tname == "A" else B)(d)


def typeof_default(res, abstract, ptype, fname):
    if isinstance(res, dict):
        return res.get("_typename")
    t = getattr(res, "_typename", None)
    return t if t is not None else type(res).__name__
