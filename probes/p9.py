import sys, json; sys.path.insert(0, "/verif/probes")
from typing import Union, Optional, List, Dict, Tuple
import base, chplug, miniloop
from base import *
from crosshair.tracers import NoTracing
from tartiflette.language.parsers.libgraphqlparser.transformers import document_from_ast_json
ENG = build("type Query { a: Int b: Int q: Query }", "p9", query_cache_decorator=None)
SCHEMA = ENG._schema

def mk_doc(opA, opB, ab, ba, aa, nested):
    # concrete ints here
    def body(spreads):
        s = " ".join(spreads)
        return ("q { %s }" % s) if (nested and spreads) else s
    A = ["a"] + ["...B"] * ab + ["...A"] * aa
    B = ["b"] + ["...A"] * ba
    txt = "{ a %s %s } fragment A on Query { a %s } fragment B on Query { b %s }" % (
        " ".join(["...A"] * opA), " ".join(["...B"] * opB),
        body(["...B"] * ab + ["...A"] * aa), body(["...A"] * ba))
    return txt

def sel(x, n):
    for j in range(n - 1):
        if x == j:
            return j
    return n - 1

def chk_frag(opA: int, opB: int, ab: int, ba: int, aa: int, nested: bool) -> bool:
    """
    pre: 0 <= opA < 3 and 0 <= opB < 3 and 0 <= ab < 3 and 0 <= ba < 2 and 0 <= aa < 2
    post: _
    """
    opA, opB, ab, ba, aa = sel(opA, 3), sel(opB, 3), sel(ab, 3), sel(ba, 2), sel(aa, 2)
    nested = True if nested else False
    with NoTracing():
        txt = mk_doc(opA, opB, ab, ba, aa, nested)
        ast = gqlfront.parse(txt)
    # oracle
    cyc = aa > 0 or (ab > 0 and ba > 0)
    usedA = opA > 0 or ba > 0 or aa > 0
    usedB = opB > 0 or ab > 0
    valid = (not cyc) and usedA and usedB
    try:
        doc = document_from_ast_json(ast, txt, SCHEMA)
        errs = doc.validators.errors
    except Exception as e:
        errs = [e]
    ok = (len(errs) == 0) == valid
    if not ok:
        with NoTracing():
            open("/verif/probes/cex_frag.jsonl", "a").write(json.dumps({"txt": txt, "valid": valid, "errs": [str(e) for e in errs]}) + "\n")
    return ok
