"""Validation catalogue (C06/C07): schema V with every executable-document feature, counters for everything that
must not run on a refused request, and the base documents with named holes used by the generators."""
from vf import env
from vf.env import build
from vf.ref.model import model_from_sdl
from tartiflette import Resolver, TypeResolver, Directive, Subscription

NAME = "vworld"
SDL = """
directive @tag(n: Int, l: [Int]) on QUERY | MUTATION | SUBSCRIPTION | FIELD | FRAGMENT_DEFINITION | FRAGMENT_SPREAD | INLINE_FRAGMENT
directive @onlyq(n: Int) on QUERY
directive @lim(max: Int! = 3, hint: String) on FIELD | QUERY
directive @bare on FIELD | FRAGMENT_SPREAD | INLINE_FRAGMENT | QUERY | FRAGMENT_DEFINITION
directive @mark on FIELD_DEFINITION | ARGUMENT_DEFINITION | INPUT_FIELD_DEFINITION | SCALAR | ENUM | OBJECT
interface Node { id: ID! }
type A implements Node { id: ID! n: Int peer: Node }
type B implements Node { id: ID! flag: Boolean }
type C { x: Int }
union U = A | B
union V = B | C
enum Color @mark { RED GREEN }
scalar My @mark
input Inp { x: Int! @mark y: [Int] c: Color inner: Inp }
type Query {
  a: Int @mark  b: Int  q: Query  node: Node  u: U  nodes: [Node]  c: C  v: V
  arg(i: Int @mark, ni: Int! = 1, li: [Int], lli: [[Int]], s: String, c: Color, o: Inp, b: Boolean, f: Float, id: ID, my: My, lo: [Inp!]): Int
  req(x: Int!): Int
}
type Mutation { set(v: Int): Int  other: Int }
type Subscription { t1: Int  t2(n: Int): Int }
"""
LOG = []     # resolver calls
TLOG = []    # type resolver calls
HLOG = []    # field/argument/value-level directive hooks
SLOG = []    # subscription sources started


def reset():
    del LOG[:]; del TLOG[:]; del HLOG[:]; del SLOG[:]


def read(parent, name):
    if isinstance(parent, dict):
        return parent.get(name)
    return getattr(parent, name, None)


async def universal(parent, args, ctx, info):
    LOG.append((tuple(info.path.as_list()), args))
    if info.field_name in ("arg", "req", "set"):
        return 1
    return read(parent, info.field_name)


def _tres(result, ctx, info, abstract_type):
    TLOG.append(abstract_type.name)
    return read(result, "_typename")


class Hooks:
    def __init__(self, name):
        self.name = name

    async def on_field_execution(self, directive_args, next_resolver, parent, args, ctx, info):
        HLOG.append((self.name, "field"))
        return await next_resolver(parent, args, ctx, info)

    async def on_argument_execution(self, directive_args, next_directive, parent_node, argument_definition_node, argument_node, value, ctx):
        HLOG.append((self.name, "argument"))
        return await next_directive(parent_node, argument_definition_node, argument_node, value, ctx)

    async def on_post_input_coercion(self, directive_args, next_directive, parent_node, value, ctx):
        HLOG.append((self.name, "input"))
        return await next_directive(parent_node, value, ctx)

    async def on_pre_output_coercion(self, directive_args, next_directive, value, ctx, info):
        HLOG.append((self.name, "output"))
        return await next_directive(value, ctx, info)


class MyScalar:
    def coerce_output(self, v):
        return v

    def coerce_input(self, v):
        return v

    def parse_literal(self, ast):
        return getattr(ast, "value", None)


def make(name=NAME, **kw):
    from tartiflette import Scalar
    for d in ("tag", "onlyq", "mark", "lim", "bare"):
        Directive(d, schema_name=name)(Hooks(d))
    Scalar("My", schema_name=name)(MyScalar)
    TypeResolver("Node", schema_name=name)(_tres)
    TypeResolver("U", schema_name=name)(_tres)
    TypeResolver("V", schema_name=name)(_tres)

    @Subscription("Subscription.t1", schema_name=name)
    async def s1(parent, args, ctx, info):
        SLOG.append("t1")
        yield {"t1": 1}

    @Subscription("Subscription.t2", schema_name=name)
    async def s2(parent, args, ctx, info):
        SLOG.append("t2")
        yield {"t2": 2}
    kw.setdefault("custom_default_resolver", universal)
    kw.setdefault("query_cache_decorator", None)
    return build(SDL, name, **kw)


MODEL = model_from_sdl(SDL)
MODEL["custom"] = {"My": {"in": lambda v: v, "lit": lambda n: n.get("value"), "out": lambda v: v}}
NODE_A = {"_typename": "A", "id": "a", "n": 1, "peer": {"_typename": "B", "id": "b", "flag": True}}
NODE_B = {"_typename": "B", "id": "b2", "flag": False}
ROOT = {"a": 1, "b": 2, "node": NODE_A, "u": NODE_B, "nodes": [NODE_A, NODE_B], "c": {"x": 3}, "v": NODE_B}
ROOT["q"] = ROOT


def ref_resolve(ptype, fname, parent, args, path):
    if fname in ("arg", "req", "set"):
        return 1
    return read(parent, fname)


def typeof(res, abstract, ptype, fname):
    return read(res, "_typename")
