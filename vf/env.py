"""Bootstrap shared by workers, replays and self-tests: make the real tartiflette (from VF_REPO, default /repo)
importable in this sandbox, where libgraphqlparser.so does not exist, and install the FFI model."""
import os, sys, asyncio

VERIF = os.path.dirname(os.path.dirname(os.path.abspath(__file__)))
REPO = os.environ.get("VF_REPO", "/repo")
os.environ.setdefault("LIBGRAPHQLPARSER_DIR", os.path.join(VERIF, ".build", "lib"))
if REPO not in sys.path:
    sys.path.insert(0, REPO)
if VERIF not in sys.path:
    sys.path.insert(0, VERIF)
sys.dont_write_bytecode = True

from vf import gqlfront, miniloop  # noqa: E402
import tartiflette  # noqa: E402
from tartiflette.language.parsers.libgraphqlparser import parser as _p  # noqa: E402
from tartiflette.types.exceptions.tartiflette import GraphQLSyntaxError  # noqa: E402

assert os.path.realpath(tartiflette.__file__).startswith(os.path.realpath(REPO)), tartiflette.__file__


def _model_parse(query):
    """S-FFI: model of `_parse_to_json_ast` (text -> libgraphqlparser JSON AST, here already a dict;
    engines are built with json_loader=identity)."""
    try:
        return gqlfront.parse(query)
    except gqlfront.GQLSyntaxError as e:
        raise GraphQLSyntaxError(str(e))
    except UnicodeDecodeError:
        raise GraphQLSyntaxError("1.1: syntax error, invalid utf-8")


_p._parse_to_json_ast = _model_parse
FFI = _p


def identity(x):
    return x


def build_two_step(sdl, name, where, **kw):
    """the documented advanced instantiation: Engine(...) then cook(...); `where` = "init" (everything given to the constructor) or "cook" (everything given to cook())"""
    from tartiflette import Engine
    kw.setdefault("json_loader", identity)

    async def go():
        if where == "init":
            e = Engine(sdl, schema_name=name, **kw)
            await e.cook()
        else:
            e = Engine()
            await e.cook(sdl, schema_name=name, **kw)
        return e
    return asyncio.run(go())


def build(sdl, name, **kw):
    """create_engine, concretely (never call under tracing with symbolic inputs)."""
    from tartiflette import create_engine
    kw.setdefault("json_loader", identity)
    return asyncio.run(create_engine(sdl, schema_name=name, **kw))


class DictCache:
    """public `query_cache_decorator` API: dict cache the harness can pre-warm and reset."""

    def __init__(self):
        self.d = {}

    def __call__(self, fn):
        def w(q, s):
            k = (q, id(s))
            if k not in self.d:
                self.d[k] = fn(q, s)
            return self.d[k]
        w.cache = self
        return w


def run(coro, chooser=None, max_steps=200000):
    return miniloop.MiniLoop(chooser=chooser, max_steps=max_steps).run_until_complete(coro)


def pick(x, n):
    """turn a bounded symbolic selector into a concrete int by branching (one path per value)."""
    for j in range(n - 1):
        if x == j:
            return j
    return n - 1


def pickb(b):
    return True if b else False


TWIN = os.environ.get("VERIF_TWIN") == "1"


def verdict(ok):
    """last statement of every obligation: reachability twin turns a reached comparison into a failure."""
    if TWIN:
        return False
    return True if ok else False


# ---- observations (trace-equivalence self-test, replay explanations) --------------------------------------
OBS = []
OBS_ON = False
EXPLAIN = False


def observe(*x):
    """record concrete observations (responses, logs); a no-op during symbolic runs so nothing is realised"""
    if OBS_ON:
        OBS.append(x if len(x) != 1 else x[0])


def safe(thunk):
    """run real code; an escaping Exception is a failed obligation, not an execution error"""
    try:
        return True, thunk()
    except Exception as e:  # BaseException (CrossHair path steering) must pass through
        observe("RAISED", repr(e))
        return False, e
