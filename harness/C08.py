"""C08 — the response does not depend on the order in which pending resolvers complete nor on the concurrency
options; everything started has finished when execute returns; nothing is started twice.  (DESIGN §4 C08)"""
from vf import env, miniloop
from vf.env import pick, verdict, observe, safe, build, DictCache
from vf.ob import obligation, shard
from tartiflette import Resolver, Directive
from tartiflette.resolver.default import gather_arguments_coercer, sync_arguments_coercer

META = {
    "bounds": "<= 5 suspending resolvers / argument hooks per request (<= 120 completion orders, every one explored), 8 engine configurations "
              "(coerce_list_concurrently x coerce_parent_concurrently x arguments coercer gather/sync) + per-field overrides; 6 gate layouts incl. a TypeError raised inside resolvers that accept **kwargs, failing non-null leaves and a list of non-null items with two failing items",
    "outside": "more than 5 simultaneously pending resolvers; interleavings inside asyncio's own callbacks (between two gate releases the engine is deterministic)",
    "explanation": "MiniLoop releases pending resolver gates in a solver-chosen order; the response must equal the FIFO/default-configuration response.",
}
SDL = """
directive @g on ARGUMENT_DEFINITION
type Leaf { n: Int! tag: String after: Int }
type Mid { n: Int leaf: Leaf leaves: [Leaf] nnl: [Leaf!] }
type Query { n: Int mid: Mid mids: [Mid] sum(a: Int @g, b: Int @g): Int m2: Mid }
"""
LOG = []
GATES = {}
FAULTS = {}


def read(parent, name):
    if isinstance(parent, dict):
        return parent.get(name)
    return getattr(parent, name, None)


async def universal(parent, args, ctx, info):
    p = tuple(info.path.as_list())
    LOG.append(("start", p))
    if p in GATES:
        await miniloop.gate(p)
    LOG.append(("end", p))
    if p in FAULTS:
        if FAULTS[p] == "type":
            raise TypeError("unsupported operand")       # the kind of exception a bug in user code raises (None + 1)
        raise ValueError("boom")
    if info.field_name == "sum":
        return (args.get("a") or 0) * 10 + (args.get("b") or 0)
    return read(parent, info.field_name)


class G:
    async def on_argument_execution(self, directive_args, next_directive, parent_node, argument_definition_node, argument_node, value, ctx):
        p = ("arg", argument_definition_node.name.value)
        LOG.append(("start", p))
        if p in GATES:
            await miniloop.gate(p)
        LOG.append(("end", p))
        return await next_directive(parent_node, argument_definition_node, argument_node, value, ctx)


CONFIGS = [(lc, pc, ac) for lc in (True, False) for pc in (True, False) for ac in (0, 1)]
ENGS = []
for _i, (_lc, _pc, _ac) in enumerate(CONFIGS):
    _name = "c08_%d" % _i
    Directive("g", schema_name=_name)(G())
    ENGS.append(build(SDL, _name, custom_default_resolver=universal, query_cache_decorator=DictCache(), coerce_list_concurrently=_lc,
                      coerce_parent_concurrently=_pc, custom_default_arguments_coercer=[gather_arguments_coercer, sync_arguments_coercer][_ac]))
async def kw_resolver(parent, args, ctx, info, **kwargs):
    """a resolver written with a catch-all keyword parameter (as a forwarding decorator would be)"""
    return await universal(parent, args, ctx, info)


# per-field overrides on top of the default engine
Directive("g", schema_name="c08_ov")(G())
Resolver("Query.mids", schema_name="c08_ov", list_concurrently=False)(universal)
Resolver("Query.mid", schema_name="c08_ov", parent_concurrently=False)(universal)
Resolver("Query.sum", schema_name="c08_ov", arguments_coercer=sync_arguments_coercer)(universal)
Resolver("Query.m2", schema_name="c08_ov")(kw_resolver)
Resolver("Leaf.n", schema_name="c08_ov")(kw_resolver)
ENGS.append(build(SDL, "c08_ov", custom_default_resolver=universal, query_cache_decorator=DictCache()))

# the list sub-selection carries collection-time directives (@include / @skip: their arguments are coerced while the fields are collected,
# once per list item, possibly concurrently)
Q = "{ n mid { n leaf { n tag after } leaves { n @skip(if: false) } } mids { n @include(if: true) k: n @skip(if: false) z: n @include(if: false) } sum(a: 1, b: 2) s2: sum(b: 2) s3: sum m2 { leaf { tag n after } nnl { n tag } } }"
LEAF = {"n": 3, "tag": "t", "after": 1}
MID = {"n": 2, "leaf": LEAF, "leaves": [LEAF, {"n": 4}]}
DATA = {"n": 1, "mid": MID, "mids": [MID, {"n": 5}], "m2": {"leaf": {"n": 6, "tag": "u", "after": 2}, "nnl": [{"n": 7, "tag": "a"}, {"n": 8, "tag": "b"}, {"n": 9, "tag": "c"}]}}
LAYOUTS = {
    "fields": ([("n",), ("mid", "n"), ("mid", "leaf", "n"), ("mids", 0, "n"), ("mids", 1, "n")], []),
    "args": ([("arg", "a"), ("arg", "b"), ("n",), ("mid",)], []),
    "fault": ([("n",), ("mid", "leaf", "n"), ("mid", "leaves", 0, "n"), ("mid", "leaves", 1, "n"), ("m2", "leaf", "n")], [("mid", "leaf", "n")]),
    "nnlist": ([("m2", "nnl", 0, "n"), ("m2", "nnl", 1, "n"), ("m2", "nnl", 2, "n"), ("n",)], [("m2", "nnl", 0, "n"), ("m2", "nnl", 2, "n")]),
    "typeerr": ([("n",), ("m2",), ("mid", "leaf", "n"), ("mids", 0, "n")], {("m2",): "type", ("mid", "leaf", "n"): "type"}),
    "fault2": ([("mid",), ("m2", "leaf", "n"), ("mid", "leaves", 1, "n"), ("sum",)], [("m2", "leaf", "n"), ("mid", "leaves", 1, "n")]),
}


def run(eng, layout, chooser):
    del LOG[:]; GATES.clear(); FAULTS.clear()
    gates, faults = LAYOUTS[layout]
    for g in gates:
        GATES[g] = True
    for f in faults:
        FAULTS[f] = faults[f] if isinstance(faults, dict) else True
    loop = miniloop.MiniLoop(chooser=chooser, max_steps=200000)
    ok, resp = safe(lambda: loop.run_until_complete(eng.execute(Q, initial_value=DATA)))
    return ok, resp, loop, list(LOG)


REF = {}
for _l in LAYOUTS:
    _ok, _r, _loop, _log = run(ENGS[0], _l, None)
    assert _ok
    REF[_l] = _r
# the expected `data` does not come from the engine: reference executor (vf/ref/execute.py) over an independent reading of the SDL
from vf.ref.model import model_from_sdl  # noqa: E402
from vf.ref.execute import Ref, to_pairs, errors_ok  # noqa: E402
from vf import gqlfront  # noqa: E402
_MODEL = model_from_sdl(SDL)
_AST = gqlfront.parse(Q)
EXPECT = {}
REFX = {}
for _l, (_g, _f) in LAYOUTS.items():
    def _rr(ptype, fname, parent, args, path, _f=_f):
        if path in _f:
            raise ValueError("boom")
        if fname == "sum":
            return (args.get("a") or 0) * 10 + (args.get("b") or 0)
        return read(parent, fname)
    REFX[_l] = Ref(_MODEL, _AST, _rr, None)
    EXPECT[_l] = REFX[_l].execute(None, {}, DATA)
for _e in ENGS:
    run(_e, "fields", None)


def well_behaved(loop, log):
    """everything started has finished, nothing started twice, no gate left pending, every task done"""
    starts = [p for k, p in log if k == "start"]
    ends = [p for k, p in log if k == "end"]
    # argument hooks carry no response path (the same argument definition serves several fields of the request): counted, not de-duplicated
    if sorted(p for p in starts if p[0] == "arg") != sorted(p for p in ends if p[0] == "arg"):
        return False
    starts = [p for p in starts if p[0] != "arg"]; ends = [p for p in ends if p[0] != "arg"]
    if len(starts) != len(set(starts)) or len(ends) != len(set(ends)) or set(starts) != set(ends):
        return False
    if loop.pending:
        return False
    return all(t.done() for t in loop.tasks)


@obligation(tier="quick", timeout=300, shards=[{"cfg": c, "layout": l} for l in LAYOUTS for c in range(len(ENGS))],
            quick_shards=[0, 3, 8, 9 + 1, 9 + 6, 18, 18 + 2, 18 + 8, 27, 27 + 5, 27 + 8, 36, 36 + 8, 45, 45 + 4],
            samples=[{"c0": 0, "c1": 0, "c2": 0, "c3": 0, "c4": 0}, {"c0": 3, "c1": 1, "c2": 2, "c3": 0, "c4": 1}],
            symbolic=["c0..c4: which pending resolver completes next (the completion order)"],
            selectors=["shard: engine configuration (9), gate layout (4)"],
            bounds="every completion order of <= 5 gated resolvers / argument hooks",
            note="response equals the FIFO/default response and the reference executor's data under every completion order and configuration (the list sub-selections carry @include/@skip); all started work finished; nothing started twice")
def c08_order(c0: int, c1: int, c2: int, c3: int, c4: int) -> bool:
    """
    post: _
    """
    sh = shard()
    cs = [c0, c1, c2, c3, c4]
    k = [0]

    def chooser(n):
        x = cs[k[0]] if k[0] < len(cs) else 0
        k[0] += 1
        return pick(x, n)
    ok, resp, loop, log = run(ENGS[sh["cfg"]], sh["layout"], chooser)
    observe(resp, loop.releases)
    if not ok:
        return verdict(False)
    ref = REF[sh["layout"]]
    if resp.get("data") != ref.get("data") or to_pairs(resp.get("data")) != EXPECT[sh["layout"]]:
        return verdict(False)
    ep = sorted(repr(e["path"]) for e in resp.get("errors", []))
    rp = sorted(repr(e["path"]) for e in ref.get("errors", []))
    # a propagating failure may cancel or run its siblings (spec latitude): every reference error path that is reported must be a
    # reference path, and the set of nulled positions is already pinned by `data`; require the same paths when no latitude applies
    if not set(ep) <= set(rp) or (bool(ep) != bool(rp)):
        return verdict(False)
    # whatever the completion order: every null visible in `data` is explained by one of its causes, and no error is reported that the reference cannot produce
    if not errors_ok(resp, REFX[sh["layout"]]):
        return verdict(False)
    return verdict(well_behaved(loop, log))
