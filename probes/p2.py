import sys; sys.path.insert(0, "/verif/probes")
import p1, chplug, miniloop
from p1 import *

def check2(a: int, b: int) -> dict:
    """
    post: (_["data"] is None) or (_["data"]["a"] is None or -2**31 <= _["data"]["a"] <= 2**31-1)
    """
    return p1.run(a, b)
