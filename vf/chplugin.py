# harness-side CrossHair plugin: keep message formatting from realizing symbolic scalars / deep-copying the schema graph
import crosshair.core_and_libs  # noqa: registers the library patches first
from crosshair.core import _PATCH_REGISTRATIONS
from crosshair.libimpl import builtinslib as _bl
from crosshair.tracers import NoTracing, ResumedTracing
from crosshair.util import CrossHairValue

_orig_format = _bl._format
_ATOMS = (int, str, float, bool, type(None), bytes)
_CONTAINERS = (list, dict, tuple, set, frozenset)
SYMSTR_CONST = True      # harness META["symstr_format"] = "symbolic" switches to CrossHair's symbolic concatenation


def _has_symbolic(obj, depth):
    """(called under NoTracing) does a plain container hold a symbolic value somewhere?"""
    if isinstance(obj, CrossHairValue):
        return True
    if depth > 6:
        return True
    if type(obj) in (list, tuple, set, frozenset):
        return any(_has_symbolic(x, depth + 1) for x in obj)
    if type(obj) is dict:
        return any(_has_symbolic(k, depth + 1) or _has_symbolic(v, depth + 1) for k, v in obj.items())
    if type(obj) in _ATOMS:
        return False
    return not isinstance(obj, (int, str, float, bytes))


def _lazy_format(obj, format_spec=""):
    mode = 0
    with NoTracing():
        if isinstance(obj, CrossHairValue):
            if isinstance(obj, _bl.AnySymbolicStr):
                if SYMSTR_CONST:
                    return "<symstr>"
                mode = 1
            else:
                return "<sym>"
        elif type(obj) in _ATOMS:
            return format(obj, format_spec)
        elif isinstance(obj, _CONTAINERS):
            if _has_symbolic(obj, 0):
                return "<sym-container>"
            mode = 1
        else:
            mode = 2
    if mode == 1:
        return _orig_format(obj, format_spec)
    # plain object: run its own __format__/__str__ (traced), no deep copy
    return type(obj).__format__(obj, format_spec)

_PATCH_REGISTRATIONS[format] = _lazy_format

# tartiflette relies on functools.partial flattening (`partial(partial_obj, ...).keywords` merges) in
# utils/errors.located_error; CrossHair's replacement wraps the callee and loses it -> spurious error paths.
# It also bypasses functools.lru_cache entirely, which would make the C16 obligations vacuous.
import functools as _ft
_PATCH_REGISTRATIONS.pop(_ft.partial, None)
_PATCH_REGISTRATIONS.pop(_ft._lru_cache_wrapper.__call__, None)


# f-strings: `f"{symbolic_str}"` is spliced in symbolically by CrossHair's FORMAT_VALUE interceptor; tartiflette then
# does `str(exception)` on messages built that way, which realises the whole string (endless enumeration).  With
# SYMSTR_CONST the interpolated symbolic string becomes the constant "<symstr>" (message wording is outside every claim).
import crosshair.opcode_intercept as _oi

_orig_fv_trace_op = _oi.FormatValueInterceptor.trace_op


def _fv_trace_op(self, frame, codeobj, codenum):
    if SYMSTR_CONST:
        flags = _oi.frame_op_arg(frame)
        value_idx = -2 if flags == 0x04 else -1
        orig_obj = _oi.frame_stack_read(frame, value_idx)
        if isinstance(orig_obj, _bl.AnySymbolicStr):
            _oi.frame_stack_write(frame, value_idx, "<symstr>")
            return
    return _orig_fv_trace_op(self, frame, codeobj, codenum)


_oi.FormatValueInterceptor.trace_op = _fv_trace_op


# "did you mean" suggestions (difflib on the offending value) and the `str(value)` feeding them are message
# wording.  On a symbolic value they realise it (endless enumeration), so: get_close_matches(<symbolic>, ...) -> []
# and str(<symbolic number>) -> "<sym>" *only* when called from the allow-listed message-building sites below.
import difflib as _difflib
import sys as _sys

_MESSAGE_SITES = ("tartiflette/coercers/inputs/enum_coercer.py",)
_orig_str_patch = _PATCH_REGISTRATIONS[str]


def _msg_str(*a):
    with NoTracing():
        if len(a) == 1 and isinstance(a[0], CrossHairValue) and not isinstance(a[0], _bl.AnySymbolicStr):
            f = _sys._getframe(1)
            while f is not None and "crosshair" in f.f_code.co_filename:
                f = f.f_back
            if f is not None and f.f_code.co_filename.endswith(_MESSAGE_SITES):
                return "<sym>"
        if len(a) == 1:
            (self,) = a
            if isinstance(self, _bl.AnySymbolicStr):
                return self
            if type(self) in _CONTAINERS and _has_symbolic(self, 0):
                # list.__str__ would call repr() of a symbolic and die with "__repr__ returned non-string"
                return "<sym-container>"
            with ResumedTracing():
                return _bl.invoke_dunder(self, "__str__")
    return str(*a)      # inside a patch's own code the call reaches the next lower layer (the real str)


def _close_matches(word, possibilities, *a, **kw):
    with NoTracing():
        symbolic = isinstance(word, CrossHairValue) or word in ("<sym>", "<symstr>", "<sym-container>")
    if symbolic:
        return []
    return _difflib.get_close_matches(word, possibilities, *a, **kw)


_PATCH_REGISTRATIONS[str] = _msg_str
_PATCH_REGISTRATIONS[_difflib.get_close_matches] = _close_matches


# CrossHair's replacement of hash() carries a PEP-316 contract, so the analysis may *short-circuit* it: skip the body and
# return an arbitrary int satisfying the postcondition.  tartiflette defines GraphQLSchema.__hash__ = hash(self.name) and the
# default query cache (functools.lru_cache) hashes the schema on every request: a short-circuited hash makes __hash__ return a
# symbolic int ("__hash__ method should return an integer") — a failure that does not exist in CPython.  Same body, no contract:
def _plain_hash(obj):
    with NoTracing():
        if not _bl.is_hashable(obj):
            return hash(obj)  # error in the native way
    return _bl.invoke_dunder(obj, "__hash__")


_PATCH_REGISTRATIONS[hash] = _plain_hash


def _plain_repr(obj):
    # same for repr(): CrossHair's version is contracted (`post[]: True`) and may be short-circuited into an arbitrary string
    return _bl.invoke_dunder(obj, "__repr__")


_PATCH_REGISTRATIONS[repr] = _plain_repr
