# harness-side CrossHair plugin: keep message formatting from realizing symbolic scalars / deep-copying the schema graph
import crosshair.core_and_libs  # noqa: registers the library patches first
from crosshair.core import _PATCH_REGISTRATIONS
from crosshair.libimpl import builtinslib as _bl
from crosshair.tracers import NoTracing
from crosshair.util import CrossHairValue

_orig_format = _bl._format
_ATOMS = (int, str, float, bool, type(None), bytes)
_CONTAINERS = (list, dict, tuple, set, frozenset)
def _lazy_format(obj, format_spec=""):
    mode = 0
    with NoTracing():
        if isinstance(obj, CrossHairValue):
            if isinstance(obj, _bl.AnySymbolicStr):
                mode = 1
            else:
                return "<sym>"
        elif type(obj) in _ATOMS:
            return format(obj, format_spec)
        elif isinstance(obj, _CONTAINERS):
            mode = 1
        else:
            mode = 2
    if mode == 1:
        return _orig_format(obj, format_spec)
    # plain object: run its own __format__/__str__ (traced), no deep copy
    return type(obj).__format__(obj, format_spec)

_PATCH_REGISTRATIONS[format] = _lazy_format

# tartiflette relies on functools.partial flattening (`partial(partial_obj, ...).keywords` merges) in
# utils/errors.located_error; CrossHair's replacement wraps the callee and loses it -> spurious error paths.
# It also bypasses functools.lru_cache entirely, which would make the C16 obligations vacuous.
import functools as _ft
_PATCH_REGISTRATIONS.pop(_ft.partial, None)
_PATCH_REGISTRATIONS.pop(_ft._lru_cache_wrapper.__call__, None)
