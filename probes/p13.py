import sys; sys.path.insert(0, "/verif/probes")
from typing import Optional, List
from functools import lru_cache
import base, chplug, miniloop2, gqlfront
from base import *
from tartiflette import Subscription
from tartiflette.language.parsers.libgraphqlparser import parser as _p
from tartiflette.types.exceptions.tartiflette import GraphQLSyntaxError
ST = {}
SRC_CALLS = []
@Subscription("Subscription.tick", schema_name="p13")
async def src(parent, args, ctx, info):
    SRC_CALLS.append(dict(args))
    for e in ST["events"]:
        await miniloop2.gate("ev")
        yield e
@Resolver("Subscription.tick", schema_name="p13")
async def rtick(parent, args, ctx, info):
    if parent is None: return None
    if parent < 0: raise ValueError("neg")
    return parent
@Resolver("Query.e", schema_name="p13")
async def re_(p, a, c, i):
    return a.get("i")
SDL = "type Query { a: Int e(i: Int): Int } type Subscription { tick(n: Int): Int }"
ENG = build(SDL, "p13", query_cache_decorator=DictCache())

@Resolver("Query.e", schema_name="p13c")
async def re2(p, a, c, i):
    return a.get("i")
HANDLES = []
def _lru1(fn):
    w = lru_cache(maxsize=1)(fn); HANDLES.append(w); return w
ENG_LRU = build(SDL, "p13c", query_cache_decorator=_lru1)
Q = "subscription { tick(n: 1) }"

async def consume(agen):
    out = []
    async for x in agen:
        out.append(x)
    return out

ST["events"] = []
miniloop2.MiniLoop().run_until_complete(consume(ENG.subscribe(Q))) if False else None
def _warm():
    ST["events"] = []
    miniloop2.MiniLoop().run_until_complete(consume(ENG.subscribe(Q)))
_warm()

def c14(events: List[Optional[int]]) -> bool:
    """
    pre: len(events) <= 3
    post: _
    """
    ST["events"] = events
    del SRC_CALLS[:]
    got = miniloop2.MiniLoop().run_until_complete(consume(ENG.subscribe(Q)))
    if len(got) != len(events):
        return False
    for e, r in zip(events, got):
        if e is None:
            ok = r == {"data": {"tick": None}}
        elif e < 0:
            ok = r["data"] == {"tick": None} and [x["path"] for x in r["errors"]] == [["tick"]]
        elif e > 2**31 - 1:
            ok = r["data"] == {"tick": None} and len(r["errors"]) == 1
        else:
            ok = r == {"data": {"tick": e}}
        if not ok:
            return False
    return len(SRC_CALLS) == 1

def c18_ffi(msg: str, op: Optional[str]) -> bool:
    """
    post: _
    """
    old = _p._parse_to_json_ast
    def ffi(q):
        raise GraphQLSyntaxError(msg)
    _p._parse_to_json_ast = ffi
    try:
        r = miniloop2.MiniLoop().run_until_complete(ENG_LRU.execute("garbage {", operation_name=op))
    finally:
        _p._parse_to_json_ast = old
    es = r.get("errors")
    return r["data"] is None and isinstance(es, list) and len(es) == 1 and isinstance(es[0]["message"], str) and es[0]["path"] is None and es[0]["locations"] == []

Q2 = "query($v: Int) { e(i: $v) }"
def c16(v1: Optional[int], v2: Optional[int], sw: bool) -> bool:
    """
    post: _
    """
    L = miniloop2.MiniLoop
    for h in HANDLES: h.cache_clear()
    r1 = L().run_until_complete(ENG_LRU.execute(Q2, variables={"v": v1}))
    if sw:
        L().run_until_complete(ENG_LRU.execute("{ a }"))
    r2 = L().run_until_complete(ENG_LRU.execute(Q2, variables={"v": v2}))
    ok2 = (r2 == {"data": {"e": v2}}) if (v2 is None or -2**31 <= v2 <= 2**31 - 1) else (r2["data"] is None)
    return ok2
