import sys; sys.path.insert(0, "/verif/probes")
import base, chplug
from tartiflette.schema.schema import GraphQLSchema
from tartiflette.types.object import GraphQLObjectType
from tartiflette.types.field import GraphQLField
from tartiflette.types.exceptions.tartiflette import RedefinedImplementation

def chk_dup(n1: str, n2: str) -> bool:
    """
    pre: len(n1) <= 3 and len(n2) <= 3
    post: _
    """
    s = GraphQLSchema("x")
    s.add_type_definition(GraphQLObjectType(n1, {"a": GraphQLField("a", "Int")}))
    try:
        s.add_type_definition(GraphQLObjectType(n2, {"a": GraphQLField("a", "Int")}))
        raised = False
    except RedefinedImplementation:
        raised = True
    return raised == (n1 == n2)

def chk_named(t: str) -> bool:
    """
    pre: len(t) <= 4
    post: _
    """
    s = GraphQLSchema("x")
    s.add_type_definition(GraphQLObjectType("Query", {"a": GraphQLField("a", t)}))
    s.add_type_definition(GraphQLObjectType("Int", {"a": GraphQLField("a", "Int")}))
    errs = s._validate_schema_named_types()
    return (len(errs) > 0) == (t not in ("Query", "Int"))
