#!/bin/sh
# tools/seed_try.sh <seed-id> <property> [tier] [extra vcheck args]: run the property's check against a seeded change,
# in a scratch copy of /repo's tree selected with VF_REPO (the /repo working tree itself is not touched).
ID=$1; PROP=$2; TIER=${3:-quick}; shift; shift; shift 2>/dev/null
S=/var/tmp/vf-st-$ID
rm -rf $S; mkdir -p $S; git -C /repo archive HEAD tartiflette | tar -x -C $S
(cd $S && git init -q . && git apply /verif/seeded/$ID/patch.diff) || { echo "patch does not apply"; exit 9; }
cd /verif
VF_REPO=$S VF_EVID=/var/tmp/vf-st-$ID-evid ./vcheck $PROP --tier $TIER "$@" > /var/tmp/vf-st-$ID.log 2>&1
RC=$?
echo "TRY $ID prop=$PROP tier=$TIER exit=$RC $(grep -c '^VIOLATION' /var/tmp/vf-st-$ID.log) violation line(s); $(tail -1 /var/tmp/vf-st-$ID.log)"
rm -rf $S
