"""Probe version of the spec reference executor (June 2018 §6), synchronous, over the gqlfront AST and a tiny schema model.

schema model:
  types: {name: {"kind": "OBJECT"|"INTERFACE"|"UNION"|"SCALAR"|"ENUM", "fields": {fname: typeref}, "possible": [names], "values": [..]}}
  typeref: ("NN", t) | ("LIST", t) | name
data source ("resolver data"): callable resolve(parent_type, field_name, parent_value, args, path) -> value or raises
"""

class FieldError(Exception):
    """carries every failure that propagates together (the spec allows siblings to be cancelled or not;
    the reference runs them all = maximal error set; `required` = one cause per nulled position)"""
    def __init__(self, path, more=()):
        self.path = path
        self.paths = [path] + list(more)

MISSING = object()

def coerce_leaf_out(tname, v):
    # reference result coercion for built-in scalars restricted to None/bool/int/str inputs
    if tname == "Int":
        if isinstance(v, bool):
            return int(v)
        if isinstance(v, int) and -2**31 <= v <= 2**31 - 1:
            return v
        raise ValueError
    if tname == "String":
        if isinstance(v, str):
            return v
        if isinstance(v, bool):
            return "true" if v else "false"
        if isinstance(v, int):
            return str(v)
        raise ValueError
    if tname == "Boolean":
        if isinstance(v, bool):
            return v
        if isinstance(v, int):
            return v != 0
        raise ValueError
    if tname == "ID":
        if isinstance(v, str):
            return v
        if isinstance(v, int) and not isinstance(v, bool):
            return str(v)
        raise ValueError
    raise ValueError

class Ref:
    def __init__(self, schema, doc, variables, resolve, typeof):
        self.s = schema; self.doc = doc; self.vars = variables; self.resolve = resolve; self.typeof = typeof
        self.frags = {d["name"]["value"]: d for d in doc["definitions"] if d["kind"] == "FragmentDefinition"}
        self.errors = []   # maximal list of error paths
        self.nulled = []   # (nulled position, candidate cause paths)
        self.calls = []

    def arg_value(self, v):
        k = v["kind"]
        if k == "Variable":
            return self.vars.get(v["name"]["value"], MISSING)
        if k == "BooleanValue":
            return v["value"]
        if k == "IntValue":
            return int(v["value"])
        if k == "NullValue":
            return None
        if k in ("StringValue", "EnumValue"):
            return v["value"]
        raise NotImplementedError(k)

    def included(self, node):
        skip = False; incl = True
        for d in node.get("directives") or []:
            n = d["name"]["value"]
            if n in ("skip", "include"):
                val = self.arg_value(d["arguments"][0]["value"])
                if n == "skip" and val is True:
                    skip = True
                if n == "include" and val is False:
                    incl = False
        return (not skip) and incl

    def applies(self, cond, objtype):
        if cond is None:
            return True
        t = cond["name"]["value"]
        if t == objtype:
            return True
        td = self.s[t]
        return td["kind"] in ("INTERFACE", "UNION") and objtype in td["possible"]

    def collect(self, objtype, selset, grouped, visited):
        for sel in selset["selections"]:
            if not self.included(sel):
                continue
            k = sel["kind"]
            if k == "Field":
                key = (sel["alias"] or sel["name"])["value"]
                grouped.setdefault(key, []).append(sel)
            elif k == "FragmentSpread":
                n = sel["name"]["value"]
                if n in visited:
                    continue
                visited.add(n)
                f = self.frags[n]
                if not self.applies(f["typeCondition"], objtype):
                    continue
                self.collect(objtype, f["selectionSet"], grouped, visited)
            else:
                if not self.applies(sel["typeCondition"], objtype):
                    continue
                self.collect(objtype, sel["selectionSet"], grouped, visited)
        return grouped

    def exec_selset(self, objtype, value, fieldsets, path):
        grouped = {}
        visited = set()
        for ss in fieldsets:
            self.collect(objtype, ss, grouped, visited)
        out = []
        failed = []
        for key, nodes in grouped.items():
            fname = nodes[0]["name"]["value"]
            if fname == "__typename":
                out.append((key, objtype)); continue
            ftype = self.s[objtype]["fields"].get(fname)
            if ftype is None:
                continue
            try:
                out.append((key, self.exec_field(objtype, value, fname, ftype, nodes, path + (key,))))
            except FieldError as e:
                failed.extend(e.paths)
        if failed:
            raise FieldError(failed[0], failed[1:])
        return out

    def exec_field(self, objtype, parent, fname, ftype, nodes, path):
        try:
            args = {}
            for a in nodes[0].get("arguments") or []:
                v = self.arg_value(a["value"])
                if v is not MISSING:
                    args[a["name"]["value"]] = v
            self.calls.append((path, objtype, fname, args))
            try:
                res = self.resolve(objtype, fname, parent, args, path)
            except FieldError:
                raise
            except Exception:
                raise FieldError(path)
            return self.complete(ftype, nodes, res, path, objtype, fname)
        except FieldError as e:
            if isinstance(ftype, tuple) and ftype[0] == "NN":
                raise
            self.errors.extend(e.paths)
            self.nulled.append((path, e.paths))
            return None

    def complete(self, t, nodes, res, path, ptype, fname):
        if isinstance(t, tuple) and t[0] == "NN":
            r = self.complete(t[1], nodes, res, path, ptype, fname)
            if r is None:
                raise FieldError(path)
            return r
        if res is None:
            return None
        if isinstance(res, Exception):
            raise FieldError(path)
        if isinstance(t, tuple) and t[0] == "LIST":
            if not isinstance(res, list):
                raise FieldError(path)
            out = []
            failed = []
            for i, item in enumerate(res):
                try:
                    out.append(self.complete_item(t[1], nodes, item, path + (i,), ptype, fname))
                except FieldError as e:
                    failed.extend(e.paths)
            if failed:
                raise FieldError(failed[0], failed[1:])
            return out
        td = self.s[t]
        if td["kind"] in ("SCALAR",):
            try:
                return coerce_leaf_out(t, res)
            except ValueError:
                raise FieldError(path)
        if td["kind"] == "ENUM":
            if isinstance(res, str) and res in td["values"]:
                return res
            raise FieldError(path)
        if td["kind"] == "OBJECT":
            rt = t
        else:
            rt = self.typeof(res, t, ptype, fname)
            if not (isinstance(rt, str) and rt in self.s and self.s[rt]["kind"] == "OBJECT" and rt in td["possible"]):
                raise FieldError(path)
        return self.exec_selset(rt, res, [n["selectionSet"] for n in nodes if n["selectionSet"]], path)

    def complete_item(self, t, nodes, item, path, ptype, fname):
        # an item is its own error boundary when nullable
        try:
            return self.complete(t, nodes, item, path, ptype, fname)
        except FieldError as e:
            if isinstance(t, tuple) and t[0] == "NN":
                raise
            self.errors.extend(e.paths)
            self.nulled.append((path, e.paths))
            return None

    def run(self, op, root_type, root_value):
        try:
            return self.exec_selset(root_type, root_value, [op["selectionSet"]], ())
        except FieldError as e:
            self.errors.extend(e.paths)
            self.nulled.append(((), e.paths))
            return None

def to_pairs(d):
    """engine dict -> ordered pairs, recursively"""
    if isinstance(d, dict):
        return [(k, to_pairs(v)) for k, v in d.items()]
    if isinstance(d, list):
        return [to_pairs(x) for x in d]
    return d
