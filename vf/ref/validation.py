"""Pieces of the June-2018 validation rules used as oracles (written from the spec text)."""


def allowed(vt, pt, has_default, pos_default):
    """§5.8.5 AreTypesCompatible + IsVariableUsageAllowed (June 2018)"""
    def parse(t):
        if t.endswith("!"):
            return ("NN", parse(t[:-1]))
        if t.startswith("["):
            return ("LIST", parse(t[1:-1]))
        return t

    def compat(v, l):
        if isinstance(l, tuple) and l[0] == "NN":
            if not (isinstance(v, tuple) and v[0] == "NN"):
                return False
            return compat(v[1], l[1])
        if isinstance(v, tuple) and v[0] == "NN":
            return compat(v[1], l)
        if isinstance(l, tuple) and l[0] == "LIST":
            if not (isinstance(v, tuple) and v[0] == "LIST"):
                return False
            return compat(v[1], l[1])
        if isinstance(v, tuple):
            return False
        return v == l
    v, l = parse(vt), parse(pt)
    if isinstance(l, tuple) and l[0] == "NN" and not (isinstance(v, tuple) and v[0] == "NN"):
        if not has_default and not pos_default:
            return False
        return compat(v, l[1])
    return compat(v, l)




# ---- SDL: object field type vs interface field type (June 2018 §3.6, IsValidImplementationFieldType) -------------
def wrap(base, bits):
    t = base + ("!" if bits & 1 else "")
    if bits & 2:
        t = "[" + t + "]" + ("!" if bits & 4 else "")
    return t


def parse(t):
    if t.endswith("!"):
        return ("NN", parse(t[:-1]))
    if t.startswith("["):
        return ("LIST", parse(t[1:-1]))
    return t


SUBTYPE = {("A", "N"), ("A", "U")}       # object A implements interface N and is a member of union U


def valid_impl_field_type(f, i):
    """June 2018 §3.6 IsValidImplementationFieldType"""
    if isinstance(f, tuple) and f[0] == "NN":
        return valid_impl_field_type(f[1], i[1] if isinstance(i, tuple) and i[0] == "NN" else i)
    if isinstance(f, tuple) and f[0] == "LIST" and isinstance(i, tuple) and i[0] == "LIST":
        return valid_impl_field_type(f[1], i[1])
    if f == i:
        return True
    return (f, i) in SUBTYPE


