"""C18 — execute always answers with a well-formed GraphQL response.  (DESIGN §4 C18)"""
from typing import Optional
from vf import env, world
from vf.env import pick, pickb, verdict, observe, safe, build, DictCache
from vf.ob import obligation, shard
from tartiflette.types.exceptions.tartiflette import GraphQLSyntaxError, TartifletteError

META = {
    "bounds": "operation_name: every string or None against 5 document shapes; the FFI parser outcome: an arbitrary error string (the C function's contract) or one of 24 catalogue "
              "documents (valid, invalid, runtime-failing, syntactically broken, str/bytes, multi-line); custom error coercer returning a dict with a symbolic int; resolver payload ints unbounded",
    "outside": "which texts the C lexer accepts (the C parser is absent: claims start at the JSON AST the FFI model produces for the text); `variables` that are not a dict/None",
    "explanation": "Well-formedness predicate on every response + operation selection written from the spec (GetOperation) + coercer call log.",
}
LOG = []
COERCED = []


async def _res(parent, args, ctx, info):
    LOG.append(tuple(info.path.as_list()))
    f = info.field_name
    if f == "boom":
        raise ValueError("boom")
    if f == "tboom":
        raise TartifletteError("user", extensions={"k": 1})
    if f == "kboom":
        raise KeyError(7)                 # a lookup that failed: the exception's only argument is not a string
    if f == "oboom":
        raise ValueError({"a": [1, None]}, 5)
    if f == "nboom":
        raise RuntimeError()              # no argument at all
    if f == "echo":
        return args.get("v")
    return world.read(parent, f)


SDL = "type Query { a: Int b: Int nn: Int! boom: Int tboom: Int kboom: Int oboom: Int nboom: Int echo(v: Int): Int q: Query }\ntype Mutation { m: Int }"
ENG = build(SDL, "c18", custom_default_resolver=_res, query_cache_decorator=None)
PAYLOAD = {"n": 0}


async def coercer(exception, error):
    COERCED.append(error)
    error = dict(error)
    error["coerced"] = PAYLOAD["n"]
    return error


ENGC = build(SDL, "c18c", custom_default_resolver=_res, error_coercer=coercer)        # default query cache: failing documents are cached with their errors
DATA = {"a": 1, "b": 2, "nn": 3}
DATA["q"] = DATA

OPDOCS = [
    ("{ a }", [None]),
    ("query A { a } query B { b }", ["A", "B"]),
    ("query A { a }", ["A"]),
    ("mutation M { m } query A { a }", ["M", "A"]),
    ("query { a }", [None]),
]


def wellformed(resp, text):
    if not isinstance(resp, dict) or "data" not in resp:
        return False
    if set(resp.keys()) - {"data", "errors", "extensions"}:
        return False
    if "errors" in resp:
        errs = resp["errors"]
        if not isinstance(errs, list) or not errs:
            return False
        if isinstance(text, bytes):
            try:
                text = text.decode("utf-8")
            except UnicodeDecodeError:
                text = None
        lines = text.split("\n") if text is not None else None
        for e in errs:
            if not isinstance(e, dict) or not isinstance(e.get("message"), str):
                return False
            if "path" not in e or not (e["path"] is None or isinstance(e["path"], list)):
                return False
            locs = e.get("locations")
            if not isinstance(locs, list):
                return False
            for l in locs:
                if not isinstance(l, dict) or not isinstance(l.get("line"), int) or not isinstance(l.get("column"), int) or l["line"] < 1 or l["column"] < 1:
                    return False
                if lines is not None and (l["line"] > len(lines) or l["column"] > len(lines[l["line"] - 1]) + 1):
                    return False
            if "extensions" in e and not (isinstance(e["extensions"], dict) and e["extensions"]):
                return False
    return True


@obligation(tier="quick", timeout=120, shards=[{"doc": d} for d in range(len(OPDOCS))],
            samples=[{"op": None}, {"op": "A"}, {"op": "Nope"}, {"op": ""}],
            symbolic=["op: Optional[str] — operation_name (all strings)"], bounds="5 document shapes",
            note="GetOperation: null name needs exactly one operation; a name must match a named operation; otherwise data null, one error, nothing runs")
def c18_operation_name(op: Optional[str]) -> bool:
    """
    post: _
    """
    text, names = OPDOCS[shard()["doc"]]
    del LOG[:]
    ok, r = safe(lambda: env.run(ENG.execute(text, operation_name=op, initial_value=DATA)))
    observe(r)
    if not ok or not wellformed(r, text):
        return verdict(False)
    if op is None or op == "":
        # "" can never name an operation (names are non-empty); the engine treats it like an absent name — accepted latitude
        selected = len(names) == 1
    else:
        selected = False
        for n in names:
            if n is not None and op == n:
                selected = True
    if selected:
        return verdict(r.get("data") is not None and "errors" not in r)
    return verdict(r.get("data") is None and bool(r.get("errors")) and not LOG)


CATALOGUE = [
    "{ a }", "{ a b q { a } }", "{ boom a }", "{ nn }", "{ tboom }", "{ nope }", "{ a { x } }", "query ($v: Int!) { echo(v: $v) }", "{ a ", "", "}{", "{ a }\n\n{ b }",
    "query Q {\n  a\n  boom\n  q {\n    tboom\n  }\n}", "{ a(x: 1) }", "# only a comment", "{ echo(v: \"s\") }", "query Q($v: Int) { echo(v: $v) q { q { boom } } }",
    "{ kboom a }", "{ q { oboom nboom kboom } }",
    b"\xff\xfe\x00{ a }\x80", "{ a } # caf\u00e9".encode("latin-1"), b"\x00", "{ a } # \u00e9\u4e2d".encode("utf-8"), "{ \u00e9 }",
]


@obligation(tier="quick", timeout=200,
            samples=[{"k": 0, "asbytes": False, "nullnn": False, "v": 1, "withop": 0}, {"k": 8, "asbytes": True, "nullnn": True, "v": None, "withop": 1}],
            symbolic=["v: Optional[int] — variable / payload (unbounded)"],
            selectors=["k: catalogue text (24, incl. bytes that are not valid UTF-8)", "asbytes: str or bytes", "nullnn: the non-null field resolves to null", "withop: operation_name absent / 'Q' / unknown"],
            bounds="24 texts x str/bytes x 3 operation names",
            note="never raises; response well-formed (data key, non-empty errors only when something went wrong, message/path/locations inside the text, extensions only when set); syntax errors give data null and run nothing")
def c18_catalogue(k: int, asbytes: bool, nullnn: bool, v: Optional[int], withop: int) -> bool:
    """
    post: _
    """
    k = pick(k, len(CATALOGUE)); withop = pick(withop, 3)
    text = CATALOGUE[k]
    if isinstance(text, bytes):
        q = text              # bytes that need not be valid UTF-8
    else:
        q = text.encode("utf-8") if pickb(asbytes) else text
    data = dict(DATA)
    if pickb(nullnn):
        data["nn"] = None
    op = [None, "Q", "Zzz"][withop]
    del LOG[:]
    ok, r = safe(lambda: env.run(ENG.execute(q, operation_name=op, variables={"v": v}, initial_value=data, context={"any": v})))
    observe(text, r)
    if not ok or not wellformed(r, q):
        return verdict(False)
    broken = k in (8, 9, 10, 14)
    if k in (17, 18) and withop == 0:
        # failing resolvers whose exception carries a non-string / no argument: still one well-formed error per failing field
        want = 1 if k == 17 else 3
        return verdict(r.get("data") is not None and len(r.get("errors") or []) == want)
    if broken:
        return verdict(r["data"] is None and bool(r.get("errors")) and not LOG)
    return verdict(True)


@obligation(tier="quick", timeout=120, samples=[{"msg": "1.2: syntax error", "op": None}, {"msg": "", "op": "A"}],
            symbolic=["msg: str — the error string returned by the C parser (arbitrary: its contract)", "op: Optional[str]"], bounds="all strings",
            note="whatever error text the parser FFI returns: data null, exactly one well-formed error, nothing runs")
def c18_ffi_error(msg: str, op: Optional[str]) -> bool:
    """
    post: _
    """
    old = env.FFI._parse_to_json_ast

    def ffi(q):
        raise GraphQLSyntaxError(msg)
    env.FFI._parse_to_json_ast = ffi
    del LOG[:]
    try:
        ok, r = safe(lambda: env.run(ENG.execute("garbage {", operation_name=op)))
    finally:
        env.FFI._parse_to_json_ast = old
    observe(r)
    if not ok:
        return verdict(False)
    es = r.get("errors")
    return verdict(r.get("data") is None and isinstance(es, list) and len(es) == 1 and isinstance(es[0]["message"], str) and es[0]["path"] is None
                   and es[0]["locations"] == [] and not LOG)


COERCER_DOCS = ["{ a }", "{ boom }", "{ boom tboom q { boom } }", "{ nope }", "{ a ", "{ nn }", "query A { a } query B { b }", "{ kboom oboom }"]
NERR = [0, 1, 3, None, 1, 1, 1, 2]


@obligation(tier="quick", timeout=120, samples=[{"k": 1, "n": 5}, {"k": 2, "n": -1}],
            symbolic=["n: int — a value the custom error coercer puts into every error"], selectors=["k: request (no error, 1 field error, 3 field errors, validation errors, syntax error, non-null violation, ambiguous operation)"],
            bounds="8 requests",
            note="a custom error_coercer is awaited exactly once per reported error and its return value is what appears in `errors`")
def c18_error_coercer(k: int, n: int) -> bool:
    """
    post: _
    """
    k = pick(k, len(COERCER_DOCS))
    ENGC._cached_parse_and_validate_query.cache_clear()       # per-path determinism; within the path the cache is live
    data = dict(DATA)
    if k == 5:
        data["nn"] = None
    # the same request three times (the 2nd and 3rd hit the query cache): the coercer runs once per reported error EVERY time
    for rep in range(3):
        PAYLOAD["n"] = n + rep
        del COERCED[:]; del LOG[:]
        ok, r = safe(lambda: env.run(ENGC.execute(COERCER_DOCS[k], initial_value=data)))
        observe(rep, r, len(COERCED))
        if not ok or not isinstance(r, dict) or "data" not in r:
            return verdict(False)
        errs = r.get("errors")
        if not COERCED:
            if not (errs is None and NERR[k] == 0):
                return verdict(False)
            continue
        if errs is None or len(errs) != len(COERCED):
            return verdict(False)
        if NERR[k] is not None and len(errs) != NERR[k]:
            return verdict(False)
        for e in errs:
            if e.get("coerced") != n + rep or not isinstance(e.get("message"), str):
                return verdict(False)
    return verdict(True)


# ---- an argument whose SCHEMA default is refused by its own scalar at request time: the error is located in the request text -------------
from tartiflette import Scalar  # noqa: E402
from tartiflette.constants import UNDEFINED_VALUE  # noqa: E402


class _Even:
    def coerce_output(self, v):
        return v

    def coerce_input(self, v):
        if isinstance(v, int) and not isinstance(v, bool) and v % 2 == 0:
            return v
        raise ValueError("odd")

    def parse_literal(self, ast):
        try:
            v = int(ast.value)
        except Exception:
            return UNDEFINED_VALUE
        return v if v % 2 == 0 else UNDEFINED_VALUE


SDL_D = "scalar Even\n" + "# padding\n" * 12 + "type Query {\n  a: Int\n  half(of: Even = 7): Int\n  twice(of: Even = 8, n: Int): Int\n}\n"
Scalar("Even", schema_name="c18d")(_Even)
ENGD = build(SDL_D, "c18d", custom_default_resolver=_res, query_cache_decorator=None)
DOCS_D = ["{ half }", "{ a half }", "query Q($v: Even) { half(of: $v) a }", "{\n  a\n  half\n}", "{ twice a }", "query Q($v: Even) { twice(of: $v) }", "{ half(of: 4) }", "{ x: half y: half(of: 2) }"]


@obligation(tier="quick", timeout=120, samples=[{"k": 0, "v": None, "provide": False}, {"k": 2, "v": 3, "provide": True}, {"k": 5, "v": 4, "provide": True}],
            symbolic=["v: Optional[int] — the variable's value when provided (the scalar accepts even numbers only)"],
            selectors=["k: request (argument omitted / bound to a variable / supplied; the schema default is refused by its own scalar or accepted)", "provide: the variable gets a runtime value"],
            bounds="8 requests against a schema whose argument default `Even = 7` is refused by the scalar at request time (the SDL places that default on line 16)",
            note="never raises; well-formed response; every reported location lies inside the REQUEST text (never a position of the schema's SDL); a field whose default cannot be coerced fails alone")
def c18_default_refused(k: int, v: Optional[int], provide: bool) -> bool:
    """
    post: _
    """
    k = pick(k, len(DOCS_D))
    text = DOCS_D[k]
    variables = {"v": v} if pickb(provide) else {}
    del LOG[:]
    ok, r = safe(lambda: env.run(ENGD.execute(text, variables=variables, initial_value=DATA)))
    observe(text, variables, r)
    if not ok or not wellformed(r, text):
        return verdict(False)
    if k in (0, 1, 3):
        # the default 7 is refused: `half` is null with an error, the sibling still answers
        if r.get("data") is None or r["data"].get("half") is not None or not r.get("errors"):
            return verdict(False)
        return verdict(k == 0 or r["data"].get("a") == 1)
    if k == 4:
        return verdict(r.get("data") == {"twice": None, "a": 1} and "errors" not in r)
    return verdict(True)


# ---- a custom error_coercer that annotates `extensions` IN PLACE (the style of the documentation's example): every error keeps its own annotation -----
SEQ = [0]


async def stamping_coercer(exception, error):
    SEQ[0] += 1
    error.setdefault("extensions", {})["errorId"] = "err-%d" % SEQ[0]
    return error


ENGS_ = build(SDL, "c18s", custom_default_resolver=_res, error_coercer=stamping_coercer)
STAMP_DOCS = ["{ nope nope2 }", "{ tboom x: tboom q { tboom } }", "{ boom y: boom }", "{ a(z: 1) b(z: 2) }", "{ nope }"]


@obligation(tier="quick", timeout=120, samples=[{"k": 0, "start": 0}, {"k": 1, "start": 10}, {"k": 4, "start": -5}],
            selectors=["start: where the coercer's error counter starts (4 values)", "k: request with several errors of one rule / of one user exception class / one error"],
            bounds="5 requests, each sent twice to the stamping engine and then to an engine with the default coercer",
            note="an error_coercer that writes into error['extensions'] in place: every reported error carries exactly the annotation the coercer gave to THAT error (all different), in this "
                 "response and in the next one, and nothing of it shows in the responses of another engine")
def c18_stamping_coercer(k: int, start: int) -> bool:
    """
    post: _
    """
    k = pick(k, len(STAMP_DOCS))
    q = STAMP_DOCS[k]
    start = pick(start, 4) * 1000          # "err-%d" % <symbolic int> is CPython's int rendering (realises, one path per value): four representatives
    ENGS_._cached_parse_and_validate_query.cache_clear()
    seen_ids = []
    for rep in range(2):
        SEQ[0] = start + 100 * rep
        first = SEQ[0] + 1
        ok, r = safe(lambda: env.run(ENGS_.execute(q, initial_value=DATA)))
        observe(rep, r)
        if not ok or not isinstance(r, dict) or not r.get("errors"):
            return verdict(False)
        n = len(r["errors"])
        ids = []
        for e in r["errors"]:
            ext = e.get("extensions")
            if not isinstance(ext, dict) or "errorId" not in ext:
                return verdict(False)
            ids.append(ext["errorId"])
        want = ["err-%d" % (first + i) for i in range(n)]
        if sorted(ids) != sorted(want):
            return verdict(False)         # an error shows another error's annotation (or an annotation from an earlier response)
        seen_ids += ids
    ok, r2 = safe(lambda: env.run(ENG.execute(q, initial_value=DATA)))
    observe("default-coercer engine", r2)
    if not ok or not r2.get("errors"):
        return verdict(False)
    for e in r2["errors"]:
        if "errorId" in (e.get("extensions") or {}):
            return verdict(False)
    return verdict(True)


# ---- deeply nested documents: whatever the interpreter's stack allows, execute RETURNS a well-formed response ------------------------------------
DEPTHS = [50, 100, 200, 240, 250, 300, 600]


@obligation(tier="quick", timeout=200, samples=[{"d": 1, "frag": False}, {"d": 5, "frag": True}],
            selectors=["d: nesting depth of the selection sets (50 .. 600 levels: below, around and far beyond what the Python stack allows)", "frag: the nesting goes through a chain of fragments"],
            bounds="7 depths x 2 document shapes",
            note="a document nested deeper than the stack allows is answered like any other request: execute returns (never raises) a well-formed response — data, or data null with errors")
def c18_deep(d: int, frag: bool) -> bool:
    """
    post: _
    """
    depth = DEPTHS[pick(d, len(DEPTHS))]
    frag = pickb(frag)
    from crosshair.tracers import NoTracing
    with NoTracing():
        if frag:
            n = min(depth, 400)
            q = "{ ...F0 } " + " ".join("fragment F%d on Query { q { ...F%d } }" % (i, i + 1) for i in range(n)) + " fragment F%d on Query { a }" % n
        else:
            q = "{ " + "q { " * depth + "a" + " }" * depth + " }"
    ok, r = safe(lambda: env.run(ENG.execute(q, initial_value=DATA)))
    good = ok and wellformed(r, q) and ((r.get("data") is not None) != bool(r.get("errors")))
    observe(depth, frag, good)          # where exactly the stack ends differs between a plain and a traced interpreter: only the verdict is observed
    return verdict(good)
