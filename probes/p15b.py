import sys; sys.path.insert(0, "/verif/probes")
import p15
from p15 import *
def dbg(z: int) -> bool:
    """
    post: _
    """
    FAULTS.clear(); FAULTS[POINTS[3]] = 1
    resp = miniloop2.MiniLoop().run_until_complete(ENGS[2].execute(Q, initial_value=DATA))
    print("TRACED RESP", resp, file=sys.stderr)
    return True
