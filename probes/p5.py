import sys; sys.path.insert(0, "/verif/probes")
from typing import Union, Optional, List, Dict
import base, chplug, miniloop
from base import *
ST = {}
LOG = []
@Resolver("Query.a", schema_name="p5")
async def ra(p, args, ctx, info):
    return ST["a"]
@Resolver("Query.e", schema_name="p5")
async def re_(p, args, ctx, info):
    LOG.append(args)
    return 1
CACHE = DictCache()
ENG = build("input I { x: Int! y: [Int] = [1] } type Query { a: Int e(i: Int, l: [[Int]], o: I): Int }", "p5", query_cache_decorator=CACHE)
Q1 = "{ a }"
Q2 = "query($v: Int, $l: [[Int]]) { e(i: $v, l: $l) }"
for q in (Q1, Q2):
    miniloop.run(ENG.execute(q))

def chk_out(a: Union[None, int, bool, str, float]) -> dict:
    """
    post: _["data"]["a"] is None or (isinstance(_["data"]["a"], (int, float)) and -2**31 <= _["data"]["a"] <= 2**31-1)
    """
    ST["a"] = a
    return miniloop.run(ENG.execute(Q1))

def chk_var(v: Union[None, int, bool, str, float]) -> dict:
    """
    post: (_["data"] is None) == (v is not None and (isinstance(v, (bool, str)) or not (-2**31 <= v <= 2**31-1) or v != int(v)))
    """
    del LOG[:]
    r = miniloop.run(ENG.execute(Q2, variables={"v": v}))
    return r
