"""C06 — documents valid per the June-2018 validation rules are accepted and run.  (DESIGN §4 C06)"""
from typing import Optional
from vf import env, vworld
from vf.env import pick, pickb, verdict, observe, safe
from vf.ob import obligation, shard, finding_open
from vf.ref.execute import Ref, to_pairs
from vf.ref import coerce as C
from vf import gqlfront
from crosshair.tracers import NoTracing

META = {
    "bounds": "schema V (vf/vworld.py); generators valid by construction: fragment DAGs on <= 3 fragments with spread multiplicity 0..2 per edge, placement "
              "top-level/under a field/under an inline fragment, definitions before/after use; variables used only in fragments; meta-fields; repeated fields; "
              "@skip/@include/custom directive at every executable location; multiple operations; every legal spread pairing; every legal literal kind per input type",
    "outside": "documents outside these generators; the field-selection-merging rule and input-object default validity are respected by construction (tartiflette does not implement them)",
    "explanation": "Each generated document is run through the real parse_and_validate_query + execute; expected: no errors and data equal to the reference executor's.",
}
ENG = vworld.make("c06")
M = vworld.MODEL


def run_doc(text, variables=None, op=None, compare=True):
    with NoTracing():
        ast = gqlfront.parse(text)
    vworld.reset()
    old = env.FFI._parse_to_json_ast
    env.FFI._parse_to_json_ast = lambda q: ast
    try:
        ok, resp = safe(lambda: env.run(ENG.execute(text, variables=dict(variables or {}), operation_name=op, initial_value=vworld.ROOT)))
    finally:
        env.FFI._parse_to_json_ast = old
    observe(text, resp)
    if not ok:
        return False
    if resp.get("errors"):
        return False
    if not compare:
        return resp.get("data") is not None      # __schema/__type contents are C11's subject
    ref = Ref(M, ast, vworld.ref_resolve, vworld.typeof)
    exp = ref.execute(op, variables or {}, vworld.ROOT)
    observe(("expected", exp))
    return to_pairs(resp.get("data")) == exp and not ref.errors


# ---- fragment graphs ------------------------------------------------------------------------------------------
def frag_doc(opA, opB, opC, ab, ac, bc, place, order):
    """fragments A, B, C on Query; edges only A->B, A->C, B->C (a DAG by construction); multiplicity 0..2 per edge"""
    def wrap(spreads, place):
        s = " ".join(spreads)
        if not spreads:
            return ""
        if place == 1:
            return "q { %s }" % s
        if place == 2:
            return "... on Query { %s }" % s
        return s
    A = "fragment A on Query { a %s }" % wrap(["...B"] * ab + ["...C"] * ac, place)
    B = "fragment B on Query { b %s }" % wrap(["...C"] * bc, place)
    Cf = "fragment C on Query { x: a }"
    op = "{ a %s }" % wrap(["...A"] * opA + ["...B"] * opB + ["...C"] * opC, place)
    defs = [op, A, B, Cf]
    perms = [[0, 1, 2, 3], [1, 2, 3, 0], [3, 2, 1, 0], [2, 0, 3, 1]]
    return "\n".join(defs[i] for i in perms[order])


@obligation(tier="quick", timeout=240, shards=[{"place": p, "order": o} for p in (0, 1, 2) for o in (0, 1, 2, 3)],
            quick_shards=[0, 5, 10, 3],
            samples=[{"opA": 1, "opB": 0, "opC": 0, "ab": 1, "ac": 0, "bc": 1}, {"opA": 2, "opB": 1, "opC": 1, "ab": 2, "ac": 1, "bc": 1}],
            selectors=["opA,opB,opC: multiplicity of each fragment spread in the operation (0..2)", "ab,ac,bc: multiplicity of fragment-to-fragment spreads (0..2)",
                       "shard: placement (direct / under a field / under an inline fragment), definition order"],
            bounds="all DAGs on 3 fragments with edge multiplicity <= 2 in which every fragment is used",
            note="same fragment spread more than once, shared sub-fragments (diamonds), fragments defined after use: accepted and executed")
def c06_frag_graph(opA: int, opB: int, opC: int, ab: int, ac: int, bc: int) -> bool:
    """
    post: _
    """
    sh = shard()
    opA, opB, opC, ab, ac, bc = (pick(x, 3) for x in (opA, opB, opC, ab, ac, bc))
    usedA = opA > 0
    usedB = opB > 0 or (ab > 0)
    usedC = opC > 0 or ac > 0 or bc > 0
    if not (usedA and usedB and usedC):
        return True        # an unused fragment makes the document invalid (C07's subject)
    with NoTracing():
        txt = frag_doc(opA, opB, opC, ab, ac, bc, sh["place"], sh["order"])
    return verdict(run_doc(txt))


# ---- a catalogue of legal constructions, each a small generator over selectors ---------------------------------
SPREADS = [  # (parent selection context, fragment type condition, body) — every pairing the spec calls possible
    ("node", "Node", "id"), ("node", "A", "n"), ("node", "B", "flag"), ("node", "U", "__typename"),
    ("u", "U", "__typename"), ("u", "A", "n"), ("u", "B", "flag"), ("u", "Node", "id"),
    ("q", "Query", "a"), ("nodes", "A", "id n"), ("nodes", "Node", "id"),
    # abstract in abstract with only PARTLY overlapping possible types (Node = {A, B}, V = {B, C})
    ("node", "V", "__typename"), ("v", "Node", "id"), ("nodes", "V", "__typename"), ("v", "U", "__typename"), ("u", "V", "__typename"), ("v", "B", "flag"), ("v", "C", "x"),
]
LITERALS = [  # (argument, literal) — every literal kind the spec accepts for the argument's type
    ("i", "1"), ("i", "-2147483648"), ("i", "2147483647"), ("i", "null"), ("ni", "3"), ("li", "[1, 2]"), ("li", "[1, null]"), ("li", "3"), ("li", "[]"), ("li", "null"),
    ("lli", "[[1], [2, 3]]"), ("lli", "[1]"), ("lli", "4"), ("s", "\"x\""), ("s", "\"\""), ("s", "null"), ("c", "RED"), ("c", "null"), ("b", "true"), ("b", "false"),
    ("f", "1.5"), ("f", "3"), ("f", "-1e3"), ("id", "\"abc\""), ("id", "7"), ("my", "1"), ("my", "\"s\""), ("o", "{x: 1}"), ("o", "{x: 1, y: [1], c: GREEN, inner: {x: 2}}"),
    ("o", "{x: 1, y: 5}"), ("o", "{x: 1, inner: null}"), ("lo", "[{x: 1}, {x: 2}]"), ("lo", "{x: 1}"),
]
VARUSES = [  # (variable type, default, argument position, json value or ABSENT) — usages allowed by §5.8.5
    ("Int", None, "i: $v", 3), ("Int!", None, "i: $v", 3), ("Int!", None, "ni: $v", 3), ("Int", "1", "ni: $v", None), ("Int", "1", "ni: $v", 5),
    ("[Int]", None, "li: $v", [1]), ("[Int!]", None, "li: $v", [1]), ("[Int!]!", None, "li: $v", [1]), ("[[Int!]]", None, "lli: $v", [[1]]),
    ("Inp", None, "o: $v", {"x": 1}), ("Inp!", None, "o: $v", {"x": 1}), ("Int", None, "o: {x: 1, y: [$v]}", 2), ("Int!", None, "o: {x: $v}", 2),
    ("Color", None, "c: $v", "RED"), ("Boolean", "true", "b: $v", None), ("String", None, "s: $v", "s"), ("Float", None, "f: $v", 2), ("ID", None, "id: $v", 3),
    ("Int", None, "li: [$v, 1]", 2), ("[Inp!]", None, "lo: $v", [{"x": 1}]),
]
NOTHING = object()


def legal_doc(kind, k, j):
    """-> (text, variables, operation_name)"""
    if kind == "spread":
        ctx, cond, body = SPREADS[k]
        inner = ["... on %s { %s }" % (cond, body), "...F", "... { %s }" % ("id" if ctx not in ("u", "q", "v") else ("__typename" if ctx in ("u", "v") else "a")), "...F ...F"][j]
        frag = "fragment F on %s { %s }" % (cond, body) if "...F" in inner else ""
        return "{ %s { %s } } %s" % (ctx, inner, frag), {}, None
    if kind == "literal":
        a, lit = LITERALS[k]
        where = ["{ arg(%s: %s) }", "{ q { arg(%s: %s) } }", "{ ...F } fragment F on Query { x: arg(%s: %s) }", "{ ... on Query { arg(%s: %s) arg(%s: %s) } }"][j]
        return (where % ((a, lit) * (where.count("%s") // 2))), {}, None
    if kind == "varuse":
        vt, dflt, use, val = VARUSES[k]
        d = "" if dflt is None else " = " + dflt
        where = ["query Q($v: %s%s) { arg(%s) }", "query Q($v: %s%s) { ...F } fragment F on Query { arg(%s) }",
                 "query Q($v: %s%s) { q { ... on Query { ...F } } } fragment F on Query { q { arg(%s) } }",
                 "query Q($v: %s%s) { a @tag(n: 1) arg(%s) }"][j]
        return where % (vt, d, use), ({} if val is None else {"v": val}), None
    if kind == "meta":
        docs = [
            "{ __typename a }", "{ node { __typename id } u { __typename } nodes { __typename } }", "{ __schema { queryType { name } } }",
            "{ __type(name: \"A\") { name kind } }", "{ q { __typename q { __typename } } x: __typename }", "{ __type(name: \"Nope\") { name } a }",
            "mutation { __typename set(v: 1) }", "{ __schema { types { name } directives { name } } }",
        ]
        return docs[k], {}, None
    if kind == "repeat":
        docs = [
            "{ a a a }", "{ x: a x: a }", "{ arg(i: 1) arg(i: 1) }", "{ q { a } q { b } q { a b } }", "{ node { id } node { id ... on A { n } } }",
            "{ a ...F a } fragment F on Query { a }", "{ arg(o: {x: 1}) arg(o: {x: 1}) }", "query Q($v: Int) { arg(i: $v) arg(i: $v) }",
        ]
        return docs[k], {}, None
    if kind == "dirs":
        docs = [
            "query Q @tag(n: 1) { a }", "{ a @tag }", "{ ...F @tag(n: 2) } fragment F on Query @tag { a }", "{ ... on Query @tag { a } ... @tag { b } }",
            "mutation M @tag { set(v: 1) @tag }", "query Q($s: Boolean!) { a @skip(if: $s) b @include(if: $s) ...F @skip(if: $s) ... @include(if: $s) { x: a } } fragment F on Query { y: b }",
            "{ a @skip(if: false) @include(if: true) @tag }", "query Q @onlyq { a }", "query Q($n: Int) { a @tag(n: $n) }", "{ q @tag { a @tag b @tag(n: null) } }",
        ]
        return docs[k], ({"s": False, "n": 1} if "$" in docs[k] else {}), None
    if kind == "defaults":
        # arguments that are non-null WITH a schema default are optional (5.4.2.1): bare fields / directives, alone or next to other arguments
        docs = [
            "{ arg }", "{ q { arg } }", "{ x: arg y: arg(ni: 2) z: arg(i: 1) }", "{ ...F } fragment F on Query { arg }", "{ a @lim }", "{ a @lim(max: 2) b @lim(hint: \"h\") }",
            "query Q @lim { a }", "query Q($v: Int) { arg(i: $v) a @lim }", "{ ... on Query { arg @lim } }", "{ req(x: 1) arg }",
        ]
        return docs[k], ({"v": 1} if "$v" in docs[k] else {}), None
    if kind == "names":
        # operation names and fragment names live in different namespaces: a fragment may be called like an operation (also like the one that spreads it)
        docs = [
            ("query User($i: ID!) { node { ...User } arg(id: $i) a @tag(n: 1) } fragment User on Node { id }", {"i": "1"}, "User"),
            ("query Hero($v: Int) { arg(i: $v) } query Side { ...Hero } fragment Hero on Query { a }", {"v": 1}, "Side"),
            ("query Hero($v: Int) { arg(i: $v) } query Side { ...Hero } fragment Hero on Query { a }", {"v": 1}, "Hero"),
            ("query A { ...B } query B($v: Int) { ...A arg(i: $v) } fragment A on Query { b } fragment B on Query { a }", {"v": 2}, "B"),
            ("{ ...Query } fragment Query on Query { a q { ...Query2 } } fragment Query2 on Query { b }", {}, None),
            ("mutation set { set(v: 1) ...set } fragment set on Mutation { other }", {}, None),
        ]
        return docs[k]
    if kind == "multi":
        doc = "query A { a } query B($v: Int) { arg(i: $v) } mutation C { set(v: 1) } subscription D { t1 } fragment F on Query { a }\nquery E { ...F }"
        return doc, {}, ["A", "B", "C", "E"][k]
    raise AssertionError(kind)


SIZES = {"spread": (len(SPREADS), 4), "literal": (len(LITERALS), 4), "varuse": (len(VARUSES), 4), "meta": (8, 1), "repeat": (8, 1), "dirs": (10, 1), "multi": (4, 1), "defaults": (10, 1), "names": (6, 1)}


@obligation(tier="quick", timeout=240, shards=[{"kind": k} for k in SIZES],
            samples=[{"k": 0, "j": 0}, {"k": 3, "j": 1}],
            selectors=["k: construction within the family", "j: site (operation / nested / named fragment / inline fragment)", "shard: family"],
            bounds="9 families x sites (see LITERALS, SPREADS, VARUSES tables)",
            note="legal spreads, literals of every accepted kind, allowed variable usages (incl. inside fragments only), meta-fields, repeated fields, directives at every location, several operations, bare fields / directives whose non-null arguments have schema defaults, fragments named like operations")
def c06_legal(k: int, j: int) -> bool:
    """
    post: _
    """
    kind = shard()["kind"]
    nk, nj = SIZES[kind]
    k = pick(k, nk); j = pick(j, nj)
    with NoTracing():
        txt, variables, op = legal_doc(kind, k, j)
    return verdict(run_doc(txt, variables, op, compare=(kind != "meta")))


# ---- sequences: a valid document stays valid whatever was validated before it (and whatever its sibling operations declare) ----
SEQ = [
    ("query B0($id: String) { arg(s: $id) }", {"id": "x"}, None),
    ("query A($id: Int) { ...F } fragment F on Query { arg(i: $id) }", {"id": 1}, None),
    ("query B2($id: String) { arg(s: $id) }", {"id": "y"}, None),
    ("query A($id: Int) { ...F } query B3($id: String) { arg(s: $id) } fragment F on Query { arg(i: $id) }", {"id": "z"}, "B3"),
    ("query A($id: Int) { ...F } query B3($id: String) { arg(s: $id) } fragment F on Query { arg(i: $id) }", {"id": 2}, "A"),
    ("query C($id: [Int]) { q { ...G } } fragment G on Query { arg(li: $id) }", {"id": [1]}, None),
    ("query D($id: Inp) { ...H } fragment H on Query { q { arg(o: $id) } }", {"id": {"x": 1}}, None),
    ("{ a ...K ...K } fragment K on Query { b }", {}, None),
]


@obligation(tier="quick", timeout=60, shards=[{"first": i, "second": j} for i in range(len(SEQ)) for j in range(len(SEQ))],
            samples=[{"k": 2}],
            selectors=["shard: first and second request (8 x 8 valid documents reusing one variable name with different types, through fragments)", "k: unused (each pair runs in its own process so that no earlier exploration path can pollute process-wide state)"],
            bounds="every ordered pair of 8 valid documents on one engine, one fresh process per pair",
            note="valid documents are accepted whatever was validated before them on the same engine / in the same process, and whatever the other operations of the document declare")
def c06_history(k: int) -> bool:
    """
    post: _
    """
    for i in (shard()["first"], shard()["second"]):
        txt, variables, op = SEQ[i]
        if not run_doc(txt, variables, op):
            return verdict(False)
    return verdict(True)
