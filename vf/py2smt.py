"""E2: Python AST -> z3 for the scalar kernels, one input kind at a time; re-read from the current source on every run.
Unsupported syntax raises Unsupported (obligation inconclusive, never skipped).

Outcome list: [(guard: z3 Bool, ("ret", SVal) | ("raise", excname))]
SVal: (kind, term) with kind in bool/int/float/none/const-py
"""
import ast, inspect, textwrap, math
import z3

F64 = z3.Float64()
RNE = z3.RNE()

class Unsupported(Exception):
    pass

class SVal:
    __slots__ = ("kind", "t")
    def __init__(self, kind, t=None):
        self.kind = kind; self.t = t
    def __repr__(self):
        return f"SVal({self.kind},{self.t})"

NONE = SVal("none")
TWO1024 = 2 ** 1024 - 2 ** 970      # CPython: int -> float raises OverflowError from the first int that rounds (RNE) to 2^1024

def const(v):
    if v is None:
        return NONE
    if isinstance(v, bool):
        return SVal("bool", z3.BoolVal(v))
    if isinstance(v, int):
        return SVal("int", z3.IntVal(v))
    if isinstance(v, float):
        return SVal("float", z3.FPVal(v, F64))
    if isinstance(v, str):
        return SVal("str", v)
    raise Unsupported(f"constant {v!r}")

def truth(v):
    if v.kind == "bool":
        return v.t
    if v.kind == "int":
        return v.t != 0
    if v.kind == "float":
        return z3.Not(z3.fpIsZero(v.t))
    if v.kind == "none":
        return z3.BoolVal(False)
    if v.kind == "str" and isinstance(v.t, tuple):
        return v.t[1]            # (token, nonempty: z3 Bool)
    raise Unsupported("truth of " + v.kind)

def as_int(v):
    """bool/int as z3 Int"""
    if v.kind == "int":
        return v.t
    if v.kind == "bool":
        return z3.If(v.t, z3.IntVal(1), z3.IntVal(0))
    raise Unsupported

def int_to_fp(i):
    """float(i) for a python int i with |i| < 2^1024 - 2^970: round-to-nearest-even"""
    return z3.fpRealToFP(RNE, z3.ToReal(i), F64)


def int_to_fp_exact_cmp(op, i, f):
    """compare python int i (z3 Int) with float f (FP): exact mathematical comparison.
    Only needed against constants in these kernels; we support int constants."""
    raise Unsupported("int/float comparison with symbolic int")

def compare(op, a, b):
    """returns list of (guard, SVal bool | raise)"""
    ka, kb = a.kind, b.kind
    if ka in ("none", "str") or kb in ("none", "str"):
        if op in ("Eq", "NotEq") :
            raise Unsupported("eq with none/str")
        return [(z3.BoolVal(True), ("raise", "TypeError"))]
    if ka in ("int", "bool") and kb in ("int", "bool"):
        x, y = as_int(a), as_int(b)
        t = {"LtE": x <= y, "Lt": x < y, "GtE": x >= y, "Gt": x > y, "Eq": x == y, "NotEq": x != y}[op]
        return [(z3.BoolVal(True), ("ret", SVal("bool", t)))]
    # mixed / float: need one side float
    def tofp(v):
        if v.kind == "float":
            return v.t
        # int side must be a concrete constant exactly representable, else unsupported
        s = z3.simplify(as_int(v))
        if z3.is_int_value(s):
            c = s.as_long()
            if float(c) == c:
                return z3.FPVal(float(c), F64)
        return None
    x, y = tofp(a), tofp(b)
    if x is None or y is None:
        # symbolic int vs float: only arises as floor(v) == v, handled in call floor (kept float)
        raise Unsupported("symbolic int vs float comparison")
    t = {"LtE": z3.fpLEQ(x, y), "Lt": z3.fpLT(x, y), "GtE": z3.fpGEQ(x, y), "Gt": z3.fpGT(x, y),
         "Eq": z3.fpEQ(x, y), "NotEq": z3.Not(z3.fpEQ(x, y))}[op]
    return [(z3.BoolVal(True), ("ret", SVal("bool", t)))]

PYTYPES = {"bool": ("bool", "int"), "int": ("int",), "float": ("float",), "none": (), "str": ("str",), "strofint": ("str",), "undefined": ()}

class Interp:
    def __init__(self, module, cls=None):
        self.module = module
        self.cls = cls

    def load_fn(self, fn):
        src = textwrap.dedent(inspect.getsource(fn))
        return ast.parse(src).body[0]

    # ---- expressions: return list of (guard, ("ret", SVal) | ("raise", name))
    def ev(self, e, env):
        if isinstance(e, ast.Constant):
            return [(z3.BoolVal(True), ("ret", const(e.value)))]
        if isinstance(e, ast.Name):
            if e.id in env:
                return [(z3.BoolVal(True), ("ret", env[e.id]))]
            if e.id == "UNDEFINED_VALUE":
                return [(z3.BoolVal(True), ("ret", SVal("undefined")))]
            if hasattr(self.module, e.id):
                v = getattr(self.module, e.id)
                if isinstance(v, (int, float, bool)) or v is None:
                    return [(z3.BoolVal(True), ("ret", const(v)))]
            raise Unsupported(f"name {e.id}")
        if isinstance(e, ast.Attribute) and isinstance(e.value, ast.Name) and e.value.id in env and env[e.value.id].kind.startswith("node:"):
            node = env[e.value.id]
            if e.attr in node.t:
                return [(z3.BoolVal(True), ("ret", node.t[e.attr]))]
            return [(z3.BoolVal(True), ("raise", "AttributeError"))]
        if isinstance(e, ast.UnaryOp) and isinstance(e.op, ast.Not):
            return self.bind(self.ev(e.operand, env), lambda v: [(z3.BoolVal(True), ("ret", SVal("bool", z3.Not(truth(v)))))])
        if isinstance(e, ast.BoolOp):
            # value semantics only needed in boolean contexts here -> compute truthiness with short-circuit
            def go(idx):
                if idx == len(e.values) - 1:
                    return self.bind(self.ev(e.values[idx], env), lambda v: [(z3.BoolVal(True), ("ret", SVal("bool", truth(v))))])
                def k(v):
                    tv = z3.simplify(truth(v))
                    rest_needed = tv if isinstance(e.op, ast.And) else z3.Not(tv)
                    out = []
                    short = z3.BoolVal(False) if isinstance(e.op, ast.And) else z3.BoolVal(True)
                    out.append((z3.Not(rest_needed), ("ret", SVal("bool", short))))
                    if not z3.is_false(z3.simplify(rest_needed)):
                        for g, r in go(idx + 1):
                            out.append((z3.And(rest_needed, g), r))
                    return out
                return self.bind(self.ev(e.values[idx], env), k)
            return go(0)
        if isinstance(e, ast.Compare):
            # chain a op1 b op2 c
            def chain(left_v, i):
                def k(right_v):
                    res = compare(type(e.ops[i]).__name__, left_v, right_v)
                    if i == len(e.ops) - 1:
                        return res
                    out = []
                    for g, r in res:
                        if r[0] == "raise":
                            out.append((g, r)); continue
                        tv = r[1].t
                        out.append((z3.And(g, z3.Not(tv)), ("ret", SVal("bool", z3.BoolVal(False)))))
                        for g2, r2 in chain(right_v, i + 1):
                            out.append((z3.And(g, tv, g2), r2))
                    return out
                return self.bind(self.ev(e.comparators[i], env), k)
            return self.bind(self.ev(e.left, env), lambda lv: chain(lv, 0))
        if isinstance(e, ast.IfExp):
            def k(c):
                tv = truth(c)
                out = []
                for g, r in self.ev(e.body, env):
                    out.append((z3.And(tv, g), r))
                for g, r in self.ev(e.orelse, env):
                    out.append((z3.And(z3.Not(tv), g), r))
                return out
            return self.bind(self.ev(e.test, env), k)
        if isinstance(e, ast.JoinedStr):
            # f-strings are only abstracted where they build a message; one that FORMATS a value (a format spec / conversion) computes something the laws talk about
            for part in e.values:
                if isinstance(part, ast.FormattedValue) and (part.format_spec is not None or part.conversion != -1):
                    raise Unsupported("f-string with a format spec or conversion")
            return [(z3.BoolVal(True), ("ret", SVal("str", "<msg>")))]
        if isinstance(e, ast.Call):
            return self.call(e, env)
        raise Unsupported(ast.dump(e)[:80])

    def bind(self, alts, k):
        out = []
        for g, r in alts:
            if r[0] == "raise":
                out.append((g, r))
            else:
                for g2, r2 in k(r[1]):
                    out.append((z3.And(g, g2), r2))
        return out

    def call(self, e, env):
        if not isinstance(e.func, ast.Name):
            raise Unsupported("call " + ast.dump(e.func)[:60])
        name = e.func.id
        T = z3.BoolVal(True)
        if name == "isinstance":
            def k(v):
                tn = e.args[1]
                names = [x.id for x in tn.elts] if isinstance(tn, ast.Tuple) else [tn.id]
                if v.kind.startswith("node:"):
                    res = v.kind[5:] in names
                else:
                    res = any(n in PYTYPES[v.kind] for n in names)
                return [(T, ("ret", SVal("bool", z3.BoolVal(res))))]
            return self.bind(self.ev(e.args[0], env), k)
        if name in ("ValueError", "TypeError", "Exception"):
            return [(T, ("ret", SVal("exc", name)))]
        args_alts = self.ev(e.args[0], env)
        if name == "isfinite":
            def k(v):
                if v.kind == "float":
                    return [(T, ("ret", SVal("bool", z3.And(z3.Not(z3.fpIsNaN(v.t)), z3.Not(z3.fpIsInf(v.t))))))]
                if v.kind in ("int", "bool"):
                    i = as_int(v)
                    ok = z3.And(i < TWO1024, i > -TWO1024)
                    return [(ok, ("ret", SVal("bool", z3.BoolVal(True)))), (z3.Not(ok), ("raise", "OverflowError"))]
                return [(T, ("raise", "TypeError"))]
            return self.bind(args_alts, k)
        if name == "floor":
            def k(v):
                if v.kind == "float":
                    fin = z3.And(z3.Not(z3.fpIsNaN(v.t)), z3.Not(z3.fpIsInf(v.t)))
                    # result is a python int; we keep it as an integral float (exact) tagged 'float'
                    return [(fin, ("ret", SVal("float", z3.fpRoundToIntegral(z3.RTN(), v.t)))), (z3.Not(fin), ("raise", "ValueError"))]
                if v.kind in ("int", "bool"):
                    return [(T, ("ret", SVal("int", as_int(v))))]
                return [(T, ("raise", "TypeError"))]
            return self.bind(args_alts, k)
        if name == "int":
            def k(v):
                if v.kind in ("int", "bool"):
                    return [(T, ("ret", SVal("int", as_int(v))))]
                if v.kind == "float":
                    fin = z3.And(z3.Not(z3.fpIsNaN(v.t)), z3.Not(z3.fpIsInf(v.t)))
                    # exact for |v| < 2^63, which the callers guarantee by range checks; guard it
                    small = z3.And(z3.fpLT(v.t, z3.FPVal(2.0 ** 63, F64)), z3.fpGT(v.t, z3.FPVal(-2.0 ** 63, F64)))
                    bv = z3.fpToSBV(z3.RTZ(), v.t, z3.BitVecSort(64))
                    return [(z3.And(fin, small), ("ret", SVal("int", z3.BV2Int(bv, is_signed=True)))),
                            (z3.Not(fin), ("raise", "ValueError")),
                            (z3.And(fin, z3.Not(small)), ("raise", "UNSUPPORTED_BIG_FLOAT_TO_INT"))]
                return [(T, ("raise", "TypeError"))]
            return self.bind(args_alts, k)
        if name == "float":
            def k(v):
                if v.kind == "float":
                    return [(T, ("ret", v))]
                if v.kind in ("int", "bool"):
                    i = as_int(v)
                    ok = z3.And(i < TWO1024, i > -TWO1024)
                    return [(ok, ("ret", SVal("float", int_to_fp(i)))), (z3.Not(ok), ("raise", "OverflowError"))]
                if v.kind in ("str", "strofint"):
                    raise Unsupported("float(<str>): text parsing is not encoded")
                return [(T, ("raise", "TypeError"))]
            return self.bind(args_alts, k)
        if name == "bool":
            return self.bind(args_alts, lambda v: [(T, ("ret", SVal("bool", truth(v))))])
        if name == "str":
            def k(v):
                if v.kind in ("str", "strofint"):
                    return [(T, ("ret", v))]
                if v.kind == "int":
                    return [(T, ("ret", SVal("strofint", v.t)))]     # CPython's decimal rendering, kept abstract
                raise Unsupported("str() of " + v.kind)
            return self.bind(args_alts, k)
        fn = getattr(self.module, name, None)
        if fn is not None and inspect.isfunction(fn):
            sub = Interp(inspect.getmodule(fn))
            fdef = sub.load_fn(fn)
            def k(v):
                return sub.run_def(fdef, [v])
            return self.bind(args_alts, k)
        raise Unsupported("call " + name)

    # ---- statements: returns list of (guard, outcome) where outcome in ("ret",SVal)|("raise",name)|("fall",env)
    def ex(self, stmts, env):
        if not stmts:
            return [(z3.BoolVal(True), ("fall", env))]
        s, rest = stmts[0], stmts[1:]
        def then(alts):
            out = []
            for g, r in alts:
                if r[0] == "fall":
                    for g2, r2 in self.ex(rest, r[1]):
                        out.append((z3.And(g, g2), r2))
                else:
                    out.append((g, r))
            return out
        if isinstance(s, ast.Expr):      # docstring / bare expr
            if isinstance(s.value, ast.Constant):
                return self.ex(rest, env)
            raise Unsupported("expr stmt")
        if isinstance(s, ast.Pass):
            return self.ex(rest, env)
        if isinstance(s, ast.Return):
            return self.ev(s.value, env) if s.value else [(z3.BoolVal(True), ("ret", NONE))]
        if isinstance(s, ast.Raise):
            if isinstance(s.exc, ast.Name):
                return [(z3.BoolVal(True), ("raise", s.exc.id))]
            if isinstance(s.exc, ast.Call) and isinstance(s.exc.func, ast.Name):
                return [(z3.BoolVal(True), ("raise", s.exc.func.id))]
            raise Unsupported("raise")
        if isinstance(s, ast.Assign):
            tgt = s.targets[0].id
            out = []
            for g, r in self.ev(s.value, env):
                if r[0] == "raise":
                    out.append((g, r))
                else:
                    e2 = dict(env); e2[tgt] = r[1]
                    out.append((g, ("fall", e2)))
            return then(out)
        if isinstance(s, ast.If):
            out = []
            for g, r in self.ev(s.test, env):
                if r[0] == "raise":
                    out.append((g, r)); continue
                tv = z3.simplify(truth(r[1]))
                if not z3.is_false(tv):
                    for g2, r2 in self.ex(s.body, env):
                        out.append((z3.And(g, tv, g2), r2))
                if not z3.is_true(tv):
                    for g2, r2 in self.ex(s.orelse, env):
                        out.append((z3.And(g, z3.Not(tv), g2), r2))
            return then(out)
        if isinstance(s, ast.Try):
            if s.finalbody or s.orelse or len(s.handlers) != 1:
                raise Unsupported("try shape")
            h = s.handlers[0]
            if not (isinstance(h.type, ast.Name) and h.type.id == "Exception"):
                raise Unsupported("except type")
            out = []
            for g, r in self.ex(s.body, env):
                if r[0] == "raise":
                    for g2, r2 in self.ex(h.body, env):
                        out.append((z3.And(g, g2), r2))
                else:
                    out.append((g, r))
            return then(out)
        raise Unsupported(type(s).__name__)

    def run_def(self, fdef, args):
        params = [a.arg for a in fdef.args.args if a.arg != "self"]
        env = dict(zip(params, args))
        out = []
        for g, r in self.ex(fdef.body, env):
            if r[0] == "fall":
                out.append((g, ("ret", NONE)))
            else:
                out.append((g, r))
        return [(z3.simplify(g), r) for g, r in out if not z3.is_false(z3.simplify(g))]

def translate(fn, argvals):
    mod = inspect.getmodule(fn)
    it = Interp(mod)
    return it.run_def(it.load_fn(fn), argvals)
