import sys; sys.path.insert(0, "/verif/probes")
from typing import Optional, List
import base, chplug, miniloop2, refexec, gqlfront
from base import *
from refexec import Ref, to_pairs, FieldError

SDL = """
interface Node { id: ID! }
type A implements Node { id: ID! n: Int peer: Node }
type B implements Node { id: ID! flag: Boolean }
union U = A | B
type Query { node: Node u: U nodes: [Node] }
"""
MODEL = {
 "Query": {"kind": "OBJECT", "fields": {"node": "Node", "u": "U", "nodes": ("LIST", "Node")}},
 "A": {"kind": "OBJECT", "fields": {"id": ("NN", "ID"), "n": "Int", "peer": "Node"}},
 "B": {"kind": "OBJECT", "fields": {"id": ("NN", "ID"), "flag": "Boolean"}},
 "Node": {"kind": "INTERFACE", "possible": ["A", "B"], "fields": {"id": ("NN", "ID")}},
 "U": {"kind": "UNION", "possible": ["A", "B"], "fields": {}},
 "ID": {"kind": "SCALAR"}, "Int": {"kind": "SCALAR"}, "Boolean": {"kind": "SCALAR"}, "String": {"kind": "SCALAR"},
}
ENG = build(SDL, "p12", query_cache_decorator=DictCache())
Q = """query Q($s: Boolean!, $i: Boolean!) {
  node { id ... on A { n x: n @skip(if: $s) } ...F }
  u { __typename ... on B { flag } ... on Node { id } }
  nodes @include(if: $i) { ...F id }
}
fragment F on Node { id ... on A { peer { id } n } ... on B { flag } }
"""
AST = gqlfront.parse(Q)
miniloop2.MiniLoop().run_until_complete(ENG.execute(Q, variables={"s": True, "i": True}))

def mkdata(t1, t2, t3, n, flag, nlen):
    def obj(t, depth=0):
        if t:
            d = {"_typename": "A", "id": "a%d" % depth, "n": n}
            d["peer"] = obj(not t, depth + 1) if depth < 1 else None
            return d
        return {"_typename": "B", "id": 7, "flag": flag}
    return {"node": obj(t1), "u": obj(t2), "nodes": [obj(t3)] * nlen}

def typeof(res, abstract, ptype, fname):
    return res["_typename"]

def resolve(ptype, fname, parent, args, path):
    if parent is None:
        return None
    return parent.get(fname)

def c01(s: bool, i: bool, t1: bool, t2: bool, t3: bool, n: Optional[int], flag: Optional[bool], nlen: int) -> bool:
    """
    pre: 0 <= nlen <= 2
    post: _
    """
    nlen = 0 if nlen == 0 else (1 if nlen == 1 else 2)
    data = mkdata(t1, t2, t3, n, flag, nlen)
    variables = {"s": s, "i": i}
    resp = miniloop2.MiniLoop().run_until_complete(ENG.execute(Q, variables=dict(variables), initial_value=data))
    ref = Ref(MODEL, AST, variables, resolve, typeof)
    exp = ref.run(AST["definitions"][0], "Query", data)
    got = to_pairs(resp["data"])
    errs = sorted(tuple(e["path"]) for e in resp.get("errors", []))
    return got == exp and errs == sorted(ref.errors)
