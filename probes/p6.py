import sys; sys.path.insert(0, "/tmp/probe")
from typing import Union, Optional, List, Dict, Tuple
import asyncio
import base, chplug, miniloop
from base import *
EV = []
async def checkpoint():
    fut = asyncio.get_running_loop().create_future()
    asyncio.get_running_loop().call_soon(fut.set_result, None)
    await fut
def mk(name, val):
    @Resolver(name, schema_name="p6")
    async def r(p, args, ctx, info):
        EV.append(("start", name))
        await checkpoint()
        EV.append(("end", name))
        if val is None:
            raise ValueError("boom")
        return val
for n, v in (("Query.a", 1), ("Query.b", None), ("Query.c", [1, 2]), ("Query.o", {"x": 1, "y": 2}), ("O.x", 5), ("O.y", 6)):
    mk(n, v)
CACHE = DictCache()
ENG = build("type O { x: Int y: Int } type Query { a: Int b: Int c: [Int] o: O }", "p6", query_cache_decorator=CACHE)
Q = "{ a b c o { x y } }"
REF = miniloop.run(ENG.execute(Q))
print(REF, file=sys.stderr)
N = [0]
def chk_sched(c0: int, c1: int, c2: int, c3: int, c4: int, c5: int, c6: int, c7: int) -> dict:
    """
    pre: 0 <= c0 < 4 and 0 <= c1 < 4 and 0 <= c2 < 4 and 0 <= c3 < 4 and 0 <= c4 < 4 and 0 <= c5 < 4 and 0 <= c6 < 4 and 0 <= c7 < 4
    post: _ == REF
    """
    cs = [c0, c1, c2, c3, c4, c5, c6, c7]
    k = [0]
    def chooser(n):
        if k[0] >= len(cs):
            return 0
        x = cs[k[0]]; k[0] += 1
        for j in range(n - 1):
            if x == j:
                return j
        return n - 1
    del EV[:]
    r = miniloop.run(ENG.execute(Q), chooser)
    return r
