import asyncio, os, sys
sys.path.insert(0, "/verif/probes")
import miniloop
os.environ.setdefault("LIBGRAPHQLPARSER_DIR", "/verif/probes/lib")
sys.path.insert(0, "/repo")
import tartiflette
from tartiflette import create_engine, Resolver
from tartiflette.language.parsers.libgraphqlparser import parser as _p

def loc(l, c, l2, c2):
    return {"start": {"line": l, "column": c}, "end": {"line": l2, "column": c2}}

def name(v, c):
    return {"kind": "Name", "loc": loc(1, c, 1, c + len(v)), "value": v}

def field(n, c):
    return {"kind": "Field", "loc": loc(1, c, 1, c + len(n)), "alias": None, "name": name(n, c),
            "arguments": None, "directives": None, "selectionSet": None}

DOC = {"kind": "Document", "loc": loc(1, 1, 1, 8), "definitions": [
    {"kind": "OperationDefinition", "loc": loc(1, 1, 1, 8), "operation": "query", "name": None,
     "variableDefinitions": None, "directives": None,
     "selectionSet": {"kind": "SelectionSet", "loc": loc(1, 1, 1, 8), "selections": [field("a", 3), field("b", 5)]}}]}

_CUR = {}
def fake_parse(query):
    return _CUR["doc"]
_p._parse_to_json_ast = fake_parse

_STATE = {}
@Resolver("Query.a", schema_name="p1")
async def res_a(parent, args, ctx, info):
    return _STATE["a"]

@Resolver("Query.b", schema_name="p1")
async def res_b(parent, args, ctx, info):
    return _STATE["b"]

async def _mk():
    return await create_engine("type Query { a: Int b: Int! }", schema_name="p1", query_cache_decorator=None, json_loader=lambda x: x)
ENGINE = asyncio.run(_mk())

def run(a, b):
    _STATE["a"] = a; _STATE["b"] = b
    _CUR["doc"] = DOC
    return miniloop.run(ENGINE.execute("{ a b }"))

def check_int(a: int, b: int) -> dict:
    """
    post: (_["data"] is None) or (_["data"]["a"] is None or -2**31 <= _["data"]["a"] <= 2**31-1)
    """
    return run(a, b)

if __name__ == "__main__":
    print(run(1, 2)); print(run(2**31, 2)); print(run(1, None))
