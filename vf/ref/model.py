"""Schema model for the oracles: an independent, small SDL reader (tokens from vf.gqlfront, nothing from
tartiflette).  model_from_sdl(text) ->

  {"types": {name: T}, "directives": {name: D}, "roots": {"query": "Query", "mutation": None|name, "subscription": ...}}
  T = {"kind": OBJECT|INTERFACE|UNION|ENUM|SCALAR|INPUT_OBJECT, "name", "description",
       "fields": {fname: {"type": tref, "args": {aname: A}, "directives": [...], "description"}},   (OBJECT/INTERFACE)
       "interfaces": [names], "possible": [names] (INTERFACE/UNION),
       "values": {vname: {"directives": [...], "description"}},                                        (ENUM)
       "fields": {fname: A}                                                                            (INPUT_OBJECT)
       "directives": [(name, {arg: python value})]}
  A = {"type": tref, "default": python value | ABSENT, "default_ast": value node | None, "directives": [...], "description"}
  tref = name | ("NN", tref) | ("LIST", tref)
"""
from vf import gqlfront

ABSENT = type("ABSENT", (), {"__repr__": lambda s: "ABSENT", "__bool__": lambda s: False})()


class SDLParser(gqlfront.Parser):
    def desc(self):
        if self.t.kind in ("string", "block"):
            v = self.value(const=True)
            return v["value"]
        return None

    def kw(self, text):
        return self.t.kind == "name" and self.t.text == text

    def tref(self):
        if self.is_p("["):
            self.adv(); inner = self.tref(); self.expect_p("]")
            t = ("LIST", inner)
        else:
            t = self.name()["value"]
        if self.is_p("!"):
            self.adv(); t = ("NN", t)
        return t

    def dirs(self):
        out = []
        for d in self.directives() or []:
            out.append((d["name"]["value"], {a["name"]["value"]: const_value(a["value"]) for a in d["arguments"] or []}))
        return out

    def input_value(self):
        d = self.desc()
        n = self.name()["value"]; self.expect_p(":"); t = self.tref()
        default = ABSENT; dast = None
        if self.is_p("="):
            self.adv(); dast = self.value(const=True); default = const_value(dast)
        return n, {"type": t, "default": default, "default_ast": dast, "directives": self.dirs(), "description": d}

    def args_def(self):
        out = {}
        if self.is_p("("):
            self.adv()
            while not self.is_p(")"):
                n, a = self.input_value(); out[n] = a
            self.adv()
        return out

    def fields_def(self):
        out = {}
        if self.is_p("{"):
            self.adv()
            while not self.is_p("}"):
                d = self.desc()
                n = self.name()["value"]; args = self.args_def(); self.expect_p(":"); t = self.tref()
                out[n] = {"type": t, "args": args, "directives": self.dirs(), "description": d}
            self.adv()
        return out

    def implements(self):
        out = []
        if self.kw("implements"):
            self.adv()
            if self.is_p("&"):
                self.adv()
            out.append(self.name()["value"])
            while self.is_p("&"):
                self.adv()
                out.append(self.name()["value"])
        return out

    def sdl(self):
        m = {"types": {}, "directives": {}, "roots": None, "schema_directives": [], "extensions": []}
        while self.t.kind != "eof":
            d = self.desc()
            ext = False
            if self.kw("extend"):
                self.adv(); ext = True
            k = self.adv().text
            if k == "schema":
                dirs = self.dirs(); roots = {}
                if self.is_p("{"):
                    self.adv()
                    while not self.is_p("}"):
                        op = self.name()["value"]; self.expect_p(":"); roots[op] = self.name()["value"]
                    self.adv()
                if ext:
                    m.setdefault("ext_roots", {}).update(roots)      # applied on top of the schema definition or of the default root names
                else:
                    m["roots"] = roots
                m["schema_directives"] += dirs
                continue
            if k == "directive":
                self.expect_p("@"); n = self.name()["value"]; args = self.args_def()
                assert self.adv().text == "on"
                if self.is_p("|"):
                    self.adv()
                locs = [self.name()["value"]]
                while self.is_p("|"):
                    self.adv(); locs.append(self.name()["value"])
                m["directives"][n] = {"name": n, "args": args, "locations": locs, "description": d}
                continue
            n = self.name()["value"]
            T = {"name": n, "description": d}
            if k == "scalar":
                T.update(kind="SCALAR", directives=self.dirs())
            elif k in ("type", "interface"):
                ifs = self.implements() if k == "type" else []
                T.update(kind="OBJECT" if k == "type" else "INTERFACE", interfaces=ifs, directives=self.dirs(), fields=self.fields_def())
            elif k == "union":
                dirs = self.dirs(); members = []
                if self.is_p("="):
                    self.adv()
                    if self.is_p("|"):
                        self.adv()
                    members.append(self.name()["value"])
                    while self.is_p("|"):
                        self.adv(); members.append(self.name()["value"])
                T.update(kind="UNION", directives=dirs, possible=members)
            elif k == "enum":
                dirs = self.dirs(); vals = {}
                if self.is_p("{"):
                    self.adv()
                    while not self.is_p("}"):
                        vd = self.desc(); vn = self.name()["value"]; vals[vn] = {"directives": self.dirs(), "description": vd}
                    self.adv()
                T.update(kind="ENUM", directives=dirs, values=vals)
            elif k == "input":
                dirs = self.dirs(); fs = {}
                if self.is_p("{"):
                    self.adv()
                    while not self.is_p("}"):
                        fn, a = self.input_value(); fs[fn] = a
                    self.adv()
                T.update(kind="INPUT_OBJECT", directives=dirs, fields=fs)
            else:
                self.err()
            if ext:
                m["extensions"].append(T)
            else:
                m["types"][n] = T
        return m


def const_value(v):
    k = v["kind"]
    if k == "IntValue":
        return int(v["value"])
    if k == "FloatValue":
        return float(v["value"])
    if k in ("StringValue", "BooleanValue"):
        return v["value"]
    if k == "EnumValue":
        return Enum(v["value"])
    if k == "NullValue":
        return None
    if k == "ListValue":
        return [const_value(x) for x in v["values"] or []]
    if k == "ObjectValue":
        return {f["name"]["value"]: const_value(f["value"]) for f in v["fields"] or []}
    raise ValueError(k)


class Enum(str):
    """an enum literal in a default value (distinguished from a string literal)"""
    def __repr__(self):
        return "Enum(%s)" % str.__repr__(self)


BUILTIN_SCALARS = ["Int", "Float", "String", "Boolean", "ID"]


def apply_extensions(m):
    for e in m["extensions"]:
        T = m["types"][e["name"]]
        T["directives"] = T.get("directives", []) + e.get("directives", [])
        for key in ("fields", "values"):
            if key in e:
                T.setdefault(key, {}).update(e[key])
        if "interfaces" in e:
            T["interfaces"] = T.get("interfaces", []) + e["interfaces"]
        if "possible" in e:
            T["possible"] = T.get("possible", []) + e["possible"]
    m["extensions"] = []


def model_from_sdl(text, extra_scalars=()):
    m = SDLParser(text).sdl()
    apply_extensions(m)
    ts = m["types"]
    for s in list(BUILTIN_SCALARS) + list(extra_scalars):
        ts.setdefault(s, {"name": s, "kind": "SCALAR", "directives": [], "description": None})
    for T in ts.values():
        if T["kind"] == "INTERFACE":
            T["possible"] = [o["name"] for o in ts.values() if o["kind"] == "OBJECT" and T["name"] in o["interfaces"]]
    if m["roots"] is None:
        m["roots"] = {}
        for op, n in (("query", "Query"), ("mutation", "Mutation"), ("subscription", "Subscription")):
            if n in ts:
                m["roots"][op] = n
    m["roots"].update(m.pop("ext_roots", {}))
    for op in ("query", "mutation", "subscription"):
        m["roots"].setdefault(op, None)
    return m


def is_nn(t):
    return isinstance(t, tuple) and t[0] == "NN"


def is_list(t):
    return isinstance(t, tuple) and t[0] == "LIST"


def named(t):
    while isinstance(t, tuple):
        t = t[1]
    return t


def tstr(t):
    if is_nn(t):
        return tstr(t[1]) + "!"
    if is_list(t):
        return "[" + tstr(t[1]) + "]"
    return t
