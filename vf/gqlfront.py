"""Harness-side model of the libgraphqlparser FFI (S-FFI): GraphQL executable text -> the JSON AST
libgraphqlparser emits (same keys, null for empty lists, numbers as strings, 1-based line/column,
exclusive end column). Validated against the repository's functional tests (`vcheck ffi-selftest`)."""
import re

class GQLSyntaxError(Exception):
    pass

_TOKEN = re.compile(
    r"(?P<ws>[ \t,﻿]+)|(?P<nl>\r\n|\n|\r)|(?P<comment>#[^\n\r]*)|(?P<spread>\.\.\.)"
    r"|(?P<punct>[!$():=@\[\]{}|&])"
    r'|(?P<block>"""(?:[^"\\]|\\.|"(?!""))*""")'
    r'|(?P<string>"(?:[^"\\\n\r]|\\.)*")'
    r"|(?P<float>-?(?:0|[1-9][0-9]*)(?:\.[0-9]+(?:[eE][+-]?[0-9]+)?|[eE][+-]?[0-9]+))"
    r"|(?P<int>-?(?:0|[1-9][0-9]*))"
    r"|(?P<name>[_A-Za-z][_0-9A-Za-z]*)"
)

class Tok:
    __slots__ = ("kind", "text", "line", "col", "eline", "ecol")
    def __init__(self, kind, text, line, col, eline, ecol):
        self.kind, self.text, self.line, self.col, self.eline, self.ecol = kind, text, line, col, eline, ecol
    def __repr__(self):
        return f"Tok({self.kind},{self.text!r},{self.line}:{self.col})"

def tokenize(src):
    toks = []
    pos, line, col = 0, 1, 1
    n = len(src)
    while pos < n:
        m = _TOKEN.match(src, pos)
        if not m:
            raise GQLSyntaxError(f"{line}.{col}: syntax error, unexpected character {src[pos]!r}")
        kind = m.lastgroup
        text = m.group()
        if kind == "nl":
            line += 1; col = 1
        elif kind in ("ws", "comment"):
            col += len(text)
        else:
            # tokens never span lines except block strings
            nl = text.count("\n")
            if nl:
                eline = line + nl; ecol = len(text) - text.rfind("\n")
            else:
                eline = line; ecol = col + len(text)
            toks.append(Tok(kind, text, line, col, eline, ecol))
            line, col = eline, ecol
        pos = m.end()
    toks.append(Tok("eof", "", line, col, line, col))
    return toks

_ESC = {'"': '"', "\\": "\\", "/": "/", "b": "\b", "f": "\f", "n": "\n", "r": "\r", "t": "\t"}
def _unescape(s):
    out = []; i = 0
    while i < len(s):
        c = s[i]
        if c == "\\":
            d = s[i + 1]
            if d == "u":
                out.append(chr(int(s[i + 2:i + 6], 16))); i += 6; continue
            out.append(_ESC[d]); i += 2; continue
        out.append(c); i += 1
    return "".join(out)

def _block_value(raw):
    """BlockStringValue() of the June-2018 spec (common indent removed, blank first/last lines dropped)."""
    raw = raw.replace('\\"""', '"""')
    lines = re.split(r"\r\n|\n|\r", raw)
    common = None
    for ln in lines[1:]:
        ind = len(ln) - len(ln.lstrip(" \t"))
        if ind < len(ln) and (common is None or ind < common):
            common = ind
    if common:
        lines = [lines[0]] + [ln[common:] for ln in lines[1:]]
    while lines and not lines[0].strip(" \t"):
        lines.pop(0)
    while lines and not lines[-1].strip(" \t"):
        lines.pop()
    return "\n".join(lines)

class Parser:
    def __init__(self, src):
        self.toks = tokenize(src)
        self.i = 0
        self.last = None
    @property
    def t(self):
        return self.toks[self.i]
    def adv(self):
        self.last = self.toks[self.i]; self.i += 1; return self.last
    def err(self, what="unexpected"):
        t = self.t
        # bison's default location print: first_line.first_column[-last_line.]end, end = last_column - 1
        end = t.ecol - 1
        if t.eline > t.line:
            rng = f"-{t.eline}.{end}"
        elif end > t.col:
            rng = f"-{end}"
        else:
            rng = ""
        raise GQLSyntaxError(f"{t.line}.{t.col}{rng}: syntax error, {what} {t.text or 'end of file'}")
    def is_p(self, ch):
        return self.t.kind == "punct" and self.t.text == ch
    def expect_p(self, ch):
        if not self.is_p(ch):
            self.err()
        return self.adv()
    def loc(self, start):
        e = self.last
        return {"start": {"line": start.line, "column": start.col}, "end": {"line": e.eline, "column": e.ecol}}
    def name(self):
        if self.t.kind != "name":
            self.err()
        s = self.adv()
        return {"kind": "Name", "loc": self.loc(s), "value": s.text}

    def document(self):
        defs = []
        first = self.t
        while self.t.kind != "eof":
            defs.append(self.definition())
        if not defs:
            self.err()
        return {"kind": "Document", "loc": self.loc(first), "definitions": defs}

    def definition(self):
        t = self.t
        if self.is_p("{"):
            s = t
            ss = self.selection_set()
            return {"kind": "OperationDefinition", "loc": self.loc(s), "operation": "query", "name": None,
                    "variableDefinitions": None, "directives": None, "selectionSet": ss}
        if t.kind == "name" and t.text in ("query", "mutation", "subscription"):
            s = self.adv()
            nm = self.name() if self.t.kind == "name" else None
            vds = None
            if self.is_p("("):
                self.adv(); vds = []
                while not self.is_p(")"):
                    vds.append(self.variable_definition())
                self.adv()
                if not vds:
                    self.err()
            dirs = self.directives()
            ss = self.selection_set()
            return {"kind": "OperationDefinition", "loc": self.loc(s), "operation": s.text, "name": nm,
                    "variableDefinitions": vds, "directives": dirs, "selectionSet": ss}
        if t.kind == "name" and t.text == "fragment":
            s = self.adv()
            nm = self.name()
            if nm["value"] == "on":
                self.err()
            if not (self.t.kind == "name" and self.t.text == "on"):
                self.err()
            self.adv()
            tc = self.named_type()
            dirs = self.directives()
            ss = self.selection_set()
            return {"kind": "FragmentDefinition", "loc": self.loc(s), "name": nm, "typeCondition": tc,
                    "directives": dirs, "selectionSet": ss}
        self.err()

    def variable_definition(self):
        s = self.t
        var = self.variable()
        self.expect_p(":")
        ty = self.type_()
        dv = None
        if self.is_p("="):
            self.adv(); dv = self.value(const=True)
        return {"kind": "VariableDefinition", "loc": self.loc(s), "variable": var, "type": ty, "defaultValue": dv}

    def variable(self):
        s = self.expect_p("$")
        nm = self.name()
        return {"kind": "Variable", "loc": self.loc(s), "name": nm}

    def type_(self):
        s = self.t
        if self.is_p("["):
            self.adv(); inner = self.type_(); self.expect_p("]")
            ty = {"kind": "ListType", "loc": self.loc(s), "type": inner}
        else:
            ty = self.named_type()
        if self.is_p("!"):
            self.adv()
            ty = {"kind": "NonNullType", "loc": self.loc(s), "type": ty}
        return ty

    def named_type(self):
        s = self.t
        nm = self.name()
        return {"kind": "NamedType", "loc": self.loc(s), "name": nm}

    def directives(self):
        out = []
        while self.is_p("@"):
            s = self.adv()
            nm = self.name()
            args = self.arguments()
            out.append({"kind": "Directive", "loc": self.loc(s), "name": nm, "arguments": args})
        return out or None

    def arguments(self):
        if not self.is_p("("):
            return None
        self.adv(); out = []
        while not self.is_p(")"):
            s = self.t
            nm = self.name(); self.expect_p(":"); v = self.value()
            out.append({"kind": "Argument", "loc": self.loc(s), "name": nm, "value": v})
        self.adv()
        if not out:
            self.err()
        return out

    def selection_set(self):
        s = self.expect_p("{")
        sels = []
        while not self.is_p("}"):
            sels.append(self.selection())
        self.adv()
        if not sels:
            self.err()
        return {"kind": "SelectionSet", "loc": self.loc(s), "selections": sels}

    def selection(self):
        t = self.t
        if t.kind == "spread":
            s = self.adv()
            if self.t.kind == "name" and self.t.text != "on":
                nm = self.name(); dirs = self.directives()
                return {"kind": "FragmentSpread", "loc": self.loc(s), "name": nm, "directives": dirs}
            tc = None
            if self.t.kind == "name" and self.t.text == "on":
                self.adv(); tc = self.named_type()
            dirs = self.directives()
            ss = self.selection_set()
            return {"kind": "InlineFragment", "loc": self.loc(s), "typeCondition": tc, "directives": dirs,
                    "selectionSet": ss}
        s = t
        nm = self.name(); alias = None
        if self.is_p(":"):
            self.adv(); alias = nm; nm = self.name()
        args = self.arguments()
        dirs = self.directives()
        ss = self.selection_set() if self.is_p("{") else None
        return {"kind": "Field", "loc": self.loc(s), "alias": alias, "name": nm, "arguments": args,
                "directives": dirs, "selectionSet": ss}

    def value(self, const=False):
        t = self.t
        if self.is_p("$"):
            if const:
                self.err()
            return self.variable()
        if t.kind == "int":
            self.adv(); return {"kind": "IntValue", "loc": self.loc(t), "value": t.text}
        if t.kind == "float":
            self.adv(); return {"kind": "FloatValue", "loc": self.loc(t), "value": t.text}
        if t.kind == "string":
            self.adv(); return {"kind": "StringValue", "loc": self.loc(t), "value": _unescape(t.text[1:-1])}
        if t.kind == "block":
            self.adv(); return {"kind": "StringValue", "loc": self.loc(t), "value": _block_value(t.text[3:-3])}
        if t.kind == "name":
            self.adv()
            if t.text in ("true", "false"):
                return {"kind": "BooleanValue", "loc": self.loc(t), "value": t.text == "true"}
            if t.text == "null":
                return {"kind": "NullValue", "loc": self.loc(t)}
            return {"kind": "EnumValue", "loc": self.loc(t), "value": t.text}
        if self.is_p("["):
            self.adv(); vals = []
            while not self.is_p("]"):
                vals.append(self.value(const))
            self.adv()
            return {"kind": "ListValue", "loc": self.loc(t), "values": vals or None}
        if self.is_p("{"):
            self.adv(); fields = []
            while not self.is_p("}"):
                s = self.t
                nm = self.name(); self.expect_p(":"); v = self.value(const)
                fields.append({"kind": "ObjectField", "loc": self.loc(s), "name": nm, "value": v})
            self.adv()
            return {"kind": "ObjectValue", "loc": self.loc(t), "fields": fields or None}
        self.err()

def parse(src):
    if isinstance(src, bytes):
        src = src.decode("utf-8")
    return Parser(src).document()
