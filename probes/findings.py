"""Concrete confirmation of the defects listed in DESIGN §5 (plain CPython, FFI model, real tartiflette)."""
import sys, asyncio, json
sys.path.insert(0, "/verif/probes")
import base
from base import *
from tartiflette import Subscription, Directive, TartifletteError

CALLS = []
def mkres(name, schema, val=1):
    @Resolver(name, schema_name=schema)
    async def r(p, a, c, i):
        CALLS.append((name, dict(a))); return val
    return r

SDL = """
enum Color { RED GREEN }
input Inp { x: Int }
type Query { a: Int b: Int q: Query col(c: Color): Int li(l: [Int]): Int io(i: Inp): Int f(x: Float): Float s(v: String = "d"): Int iv(i: Int): Int }
type Subscription { t1: Int t2: Int }
"""
for f in ("Query.a", "Query.b", "Query.col", "Query.li", "Query.io", "Query.s", "Query.iv"):
    mkres(f, "fd")
@Resolver("Query.f", schema_name="fd")
async def rf(p, a, c, i):
    CALLS.append(("Query.f", dict(a))); return 1.0
@Resolver("Query.q", schema_name="fd")
async def rq(p, a, c, i):
    return {}
@Subscription("Subscription.t1", schema_name="fd")
async def s1(p, a, c, i):
    yield {"t1": 1}
@Subscription("Subscription.t2", schema_name="fd")
async def s2(p, a, c, i):
    yield {"t2": 1}
ENG = build(SDL, "fd", query_cache_decorator=None)

def run(q, **kw):
    del CALLS[:]
    r = asyncio.run(ENG.execute(q, **kw))
    return r, list(CALLS)

def show(tag, q, **kw):
    r, calls = run(q, **kw)
    print("==", tag); print("  query:", " ".join(q.split())); print("  resp :", json.dumps(r, default=str)[:400]); print("  calls:", calls)

show("F1 valid doc: fragment spread twice / shared sub-fragment", "{ ...A ...B } fragment A on Query { a ...C } fragment B on Query { b ...C } fragment C on Query { a }")
show("F2 nested cycle not refused", "{ ...A } fragment A on Query { a q { ...A } }")
show("F3 second subscription with two roots", "subscription S1 { t1 } subscription S2 { t1 t2 }", operation_name="S1")
show("F4 string literal for enum", '{ a col(c: "RED") }')
show("F5 String var inside list literal for [Int]", 'query($s: String) { li(l: [$s]) }', variables={"s": "boom"})
show("F5b String var inside object literal for Int field", 'query($s: String) { io(i: {x: $s}) }', variables={"s": "boom"})
show("F6 invalid variable default, value supplied", 'query($v: Int = "str") { iv(i: $v) a }', variables={"v": 3})
show("F8 float literal 1e999", '{ f(x: 1e999) }')
ERR = TartifletteError("shared")
@Resolver("Query.b", schema_name="fd2")
async def rb(p, a, c, i):
    raise ERR
@Resolver("Query.a", schema_name="fd2")
async def ra(p, a, c, i):
    raise ERR
ENG2 = build("type Query { a: Int b: Int }", "fd2", query_cache_decorator=None)
print("== F7 shared exception instance"); print("  ", asyncio.run(ENG2.execute("{ a b }"))); print("  ", asyncio.run(ENG2.execute("{ x: b }")))
