#!/bin/sh
# tools/seed_regress.sh <property> [rounds...]: re-run the property's quick check against every seeded change kept for it (seeded/S-<prop>-<n>/patch.diff).
# Each trial uses a scratch copy of /repo's tree (VF_REPO); a line "TRY ... exit=1 N violation line(s)" per seed. Used after a check was restructured.
P=$1; shift
ROUNDS=${@:-1 2 3 4 5 6 7 8}
for n in $ROUNDS; do
  [ -f /verif/seeded/S-$P-$n/patch.diff ] && /verif/tools/seed_try.sh S-$P-$n $P quick
done
