"""C16 — the query cache and the request history never change a response.  (DESIGN §4 C16)"""
from functools import lru_cache
from typing import Optional
from vf import env
from vf.env import pick, pickb, verdict, observe, safe, build, DictCache
from vf.ob import obligation, shard
from tartiflette import Resolver

META = {
    "bounds": "request sequences of length <= 3 over a pool of 9 documents (valid incl. variables nested in object/list literals and multi-operation, invalid, syntactically broken, "
              "runtime-failing) x str/bytes spelling x per-request int variable (unbounded) x operation name; 4 cache configurations: default lru_cache(512) (real, CrossHair's cache "
              "bypass removed), lru_cache(1), custom dict decorator, cache disabled",
    "outside": "sequences longer than 3; cache decorators other than these four",
    "explanation": "Position by position the cached engine's response must equal the response of an engine without parsing cache.",
}
SDL = """
input F { id: Int tag: String = "t" }
type Query { echo(v: Int): Int item(filter: F): Int ids(list: [Int]): Int a: Int nn: Int! }
"""


async def _res(parent, args, ctx, info):
    f = info.field_name
    if f == "echo":
        return args.get("v")
    if f == "item":
        return (args.get("filter") or {}).get("id")
    if f == "ids":
        l = args.get("list") or []
        return l[1] if len(l) > 1 else None
    if f == "nn":
        return None if (ctx or {}).get("fail") else 1
    return 7


HANDLES = []


def _lru1(fn):
    w = lru_cache(maxsize=1)(fn); HANDLES.append(w); return w


DICT = DictCache()
ENGS = {
    "default": build(SDL, "c16_default", custom_default_resolver=_res),
    "lru1": build(SDL, "c16_lru1", custom_default_resolver=_res, query_cache_decorator=_lru1),
    "dict": build(SDL, "c16_dict", custom_default_resolver=_res, query_cache_decorator=DICT),
    "none": build(SDL, "c16_none", custom_default_resolver=_res, query_cache_decorator=None),
}
FRESH = build(SDL, "c16_fresh", custom_default_resolver=_res, query_cache_decorator=None)
HANDLES.append(ENGS["default"]._cached_parse_and_validate_query)       # reset handle only (per-path determinism)

POOL = [
    "query Q($v: Int) { echo(v: $v) a }",
    "query Q($v: Int) { item(filter: {id: $v}) }",
    "query Q($v: Int) { ids(list: [1, $v]) }",
    "query A { a } query B($v: Int) { echo(v: $v) }",
    "{ nope }",
    "query Q($v: Int) { a }",
    "{ a ",
    "{ nn a }",
    "query Q($v: Int = 4) { x: echo(v: $v) item(filter: {id: 3, tag: \"z\"}) }",
]


def reset_caches():
    for h in HANDLES:
        h.cache_clear()
    DICT.d.clear()


def send(eng, idx, v, asbytes, opsel):
    q = POOL[idx]
    if asbytes:
        q = q.encode("utf-8")
    op = None
    if idx == 3:
        op = "B" if opsel else "A"
    ctx = {"fail": idx == 7 and opsel}
    variables = {"v": v} if "$v" in POOL[idx] and not (idx == 8 and v is None) else {}
    return env.run(eng.execute(q, variables=variables, operation_name=op, context=ctx))


@obligation(tier="quick", timeout=300, thorough_timeout=1500, shards=[{"cfg": c, "first": f} for c in ENGS for f in range(len(POOL))],
            quick_shards=[i for i, (c, f) in enumerate((c, f) for c in ENGS for f in range(len(POOL))) if (c == "default" and f in (0, 1, 2, 3, 6)) or (c == "lru1" and f in (1, 4)) or (c == "dict" and f in (2,)) or (c == "none" and f == 0)],
            samples=[{"i1": 1, "i2": 1, "v0": 1, "v1": 2, "v2": 3, "b0": False, "b1": True, "b2": False, "o": True, "n": 3}, {"i1": 4, "i2": 0, "v0": None, "v1": 2**31, "v2": 0, "b0": True, "b1": True, "b2": False, "o": False, "n": 2}],
            symbolic=["v0, v1, v2: Optional[int] — the variable of each request (unbounded)"],
            selectors=["i1, i2: pool index of the 2nd and 3rd request", "b0..b2: str or bytes spelling", "o: operation name / failure selector", "n: sequence length 1..3", "shard: cache configuration, first request"],
            bounds="sequences <= 3 over 9 documents",
            note="every response of the sequence == the uncached engine's response to the same request; repeating a request gives the same response; failed/invalid requests leave no trace")
def c16_history(i1: int, i2: int, v0: Optional[int], v1: Optional[int], v2: Optional[int], b0: bool, b1: bool, b2: bool, o: bool, n: int) -> bool:
    """
    post: _
    """
    sh = shard()
    eng = ENGS[sh["cfg"]]
    n = 1 + pick(n - 1, 3)
    idxs = [sh["first"], pick(i1, len(POOL)), pick(i2, len(POOL))][:n]
    vs = [v0, v1, v2]; bs = [pickb(b0), pickb(b1), pickb(b2)]
    o = pickb(o)
    reset_caches()
    for k, idx in enumerate(idxs):
        ok, r = safe(lambda: send(eng, idx, vs[k], bs[k], o))
        ok2, ref = safe(lambda: send(FRESH, idx, vs[k], bs[k], o))
        observe((idx, vs[k], bs[k]), r, ref)
        if not ok or not ok2 or r != ref:
            return verdict(False)
    return verdict(True)
