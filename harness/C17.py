"""C17 — engines registered under different schema names are independent.  (DESIGN §4 C17)"""
import asyncio, itertools
from typing import Optional
from vf import env, miniloop
from vf.env import pick, pickb, verdict, observe, safe, build, DictCache
from vf.ob import obligation, shard
from tartiflette import Resolver, TypeResolver, Scalar, Directive, Subscription
from tartiflette.schema.registry import SchemaRegistry

META = {
    "bounds": "5 schema/implementation bundles (one bare: no subscription source, no type resolver; one bringing its own implementation of the built-in scalar Time) with identical type and field names (per-field type_resolver, @TypeResolver, default type resolution; scalar, directive, "
              "subscription, resolvers that differ per bundle), all subsets of 2-3 of the first three bundles + the bare one next to a full one, x every registration order x every cooking order, + 3 pairings of the unnamed \"default\" schema with a named one x 4 orders (engine builds concrete, at import); "
              "registry lookups with a symbolic schema name (all strings) against concretely registered names",
    "outside": "more than 3 bundles; schema names are concrete when objects are registered (registering under a symbolic name inserts it in a dict, which realises it)",
    "explanation": "Each co-resident engine must answer every probe request exactly like the same bundle built alone after SchemaRegistry.clean().",
}
SDL = """
interface Pet { name: String }
type Cat implements Pet { name: String lives: Int }
type Dog implements Pet { name: String }
union U = Cat | Dog
scalar Sc
scalar Tk
directive @dd on FIELD_DEFINITION
directive @oo on OBJECT | INTERFACE | UNION | ENUM
extend type Cat @oo
extend interface Pet @oo
type Query { pet: Pet u: U pets: [Pet] item: Sc v: Int @dd echo(x: Sc): Sc now: Time tk: Tk }
type Subscription { s: Int }
"""
def sdl_of(i):
    """bundle 5 brings its OWN implementation of the built-in scalar Time (a documented feature: declare it in the SDL and register it under that schema name)"""
    return SDL + ("scalar Time\n" if i == 5 else "")


REQUESTS = [
    "{ pet { __typename name ... on Cat { lives } } }", "{ u { __typename ... on Cat { name } ... on Dog { name } } }", "{ pets { __typename name } }",
    "{ item v }", "query Q($x: Sc) { echo(x: $x) }", "{ echo(x: 5) }", "{ now }",
]
SUB = "subscription { s }"


class TkState:
    """a scalar implementation that keeps per-INSTANCE state (an opaque-token table): the first value it serialises is "new", a value it has seen is "seen" """
    def __init__(self):
        self.seen = set()

    def coerce_output(self, v):
        r = "seen" if v in self.seen else "new"
        self.seen.add(v)
        return r

    def coerce_input(self, v):
        return v

    def parse_literal(self, ast):
        return None


def register(i, name, tk=True):
    """bundle i (1..3) under schema name `name`: same type/field names, different behaviour.
    name=None: every decorator is used WITHOUT a schema_name argument (the documented default schema "default")"""
    if name is None:
        return _register(i, {}, tk)
    return _register(i, {"schema_name": name}, tk)


def _register(i, SN, tk=True):
    if tk:
        Scalar("Tk", **SN)(TkState)         # the class is handed to the decorator: every schema name gets an implementation (and a state) of its own

    @Resolver("Query.tk", **SN)
    async def tkres(parent, args, ctx, info):
        return "k"

    cat = {"_typename": "Cat", "name": "cat%d" % i, "lives": i}
    dog = {"_typename": "Dog", "name": "dog%d" % i}
    lying = {"_typename": "Dog", "name": "liar%d" % i, "lives": 9, "kind": "Cat"}     # default naming says Dog, the bundle's own type resolver says Cat

    class Sc:
        def coerce_output(self, v):
            return v * 10 + i if isinstance(v, int) else v

        def coerce_input(self, v):
            return v * 100 + i if isinstance(v, int) else v

        def parse_literal(self, ast):
            return int(ast.value) * 1000 + i
    Scalar("Sc", **SN)(Sc)

    class DD:
        async def on_field_execution(self, directive_args, next_resolver, parent, args, ctx, info):
            return (await next_resolver(parent, args, ctx, info)) + 100 * i
    Directive("dd", **SN)(DD())

    class OO:
        pass
    Directive("oo", **SN)(OO())       # carried by extensions only: every schema name is cooked from the very same SDL text

    async def pet(parent, args, ctx, info):
        return lying
    if i == 1:
        Resolver("Query.pet", **SN, type_resolver=lambda result, ctx, info, abstract: result.get("kind", result["_typename"]))(pet)
    else:
        Resolver("Query.pet", **SN)(pet)
    if i == 2:
        TypeResolver("Pet", **SN)(lambda result, ctx, info, abstract: "Dog")

    @Resolver("Query.u", **SN)
    async def u(parent, args, ctx, info):
        return dog if i != 3 else cat

    @Resolver("Query.pets", **SN)
    async def pets(parent, args, ctx, info):
        return [lying, dog]

    @Resolver("Query.item", **SN)
    async def item(parent, args, ctx, info):
        return 7

    @Resolver("Query.v", **SN)
    async def v(parent, args, ctx, info):
        return i

    @Resolver("Query.now", **SN)
    async def now(parent, args, ctx, info):
        import datetime
        return datetime.datetime(2020, 1, 2, 1, 2, 3)

    if i == 5:
        class OwnTime:
            def coerce_output(self, v):
                return "T5"

            def coerce_input(self, v):
                return v

            def parse_literal(self, ast):
                return None
        Scalar("Time", **SN)(OwnTime)

    @Resolver("Query.echo", **SN)
    async def echo(parent, args, ctx, info):
        return args.get("x")

    if i == 4:
        return          # the bare bundle: resolvers, scalar and directive only — no @Subscription, no @TypeResolver, no per-field type resolver

    @Subscription("Subscription.s", **SN)
    async def s(parent, args, ctx, info):
        yield {"s": i}
        yield {"s": 10 * i}


def probe(eng, x):
    out = [env.run(eng.execute(q, variables={"x": x} if "$x" in q else {})) for q in REQUESTS]

    async def consume():
        try:
            return [r async for r in eng.subscribe(SUB)]
        except Exception as e:      # a schema without a source for Subscription.s refuses to stream
            return ["raised " + type(e).__name__]
    out.append(env.run(consume()))
    return out


def oracle(i, x):
    """what bundle i answers when built alone — written from the bundle definitions above (independent of the engine and of process-wide state)"""
    pet = {1: {"__typename": "Cat", "name": "liar1", "lives": 9}, 2: {"__typename": "Dog", "name": "liar2"}, 3: {"__typename": "Dog", "name": "liar3"}, 4: {"__typename": "Dog", "name": "liar4"},
           5: {"__typename": "Dog", "name": "liar5"}}[i]
    u = {"__typename": "Dog", "name": "dog%d" % i} if i != 3 else {"__typename": "Cat", "name": "cat3"}
    pets = [{"__typename": "Dog", "name": "liar%d" % i}, {"__typename": "Dog", "name": "dog%d" % i}]
    echo = None if x is None else (x * 100 + i) * 10 + i
    return [{"data": {"pet": pet}}, {"data": {"u": u}}, {"data": {"pets": pets}}, {"data": {"item": 70 + i, "v": i + 100 * i}}, {"data": {"echo": echo}},
            {"data": {"echo": (5000 + i) * 10 + i}}, {"data": {"now": "01:02:03" if i != 5 else "T5"}}, [{"data": {"s": i}}, {"data": {"s": 10 * i}}] if i != 4 else NO_SOURCE]


NO_SOURCE = ["raised Exception"]      # "Can't execute a subscription query on a field which doesn't provide a source event stream"


def _fresh_process_alone(i):
    """the bundle built alone in a FRESH PROCESS (the property's reference), compared with the oracle for x = 3"""
    import subprocess, sys, json, os
    code = ("import sys, json; sys.argv=['x']; import os; os.environ['VF_C17_CHILD']='1'; sys.path.insert(0, %r); "
            "from vf import env; import harness.C17 as H; H.register(%d, 'fresh'); e = env.build(H.sdl_of(%d), 'fresh'); print('@@' + json.dumps(H.probe(e, 3)))" % (env.VERIF, i, i))
    p = subprocess.run([sys.executable, "-c", code], capture_output=True, text=True, env=dict(os.environ, VF_C17_CHILD="1"), timeout=120)
    for line in p.stdout.splitlines():
        if line.startswith("@@"):
            return json.loads(line[2:])
    return ("child failed", p.stderr[-500:])


import os as _os  # noqa: E402
CHILD = _os.environ.get("VF_C17_CHILD") == "1"
# ---- references: each bundle built alone in a clean registry ------------------------------------------------------
ALONE = {}
FRESH_ALONE = {}
for _i in (() if CHILD else (1, 2, 3, 4, 5)):
    FRESH_ALONE[_i] = _fresh_process_alone(_i)
    SchemaRegistry.clean()
    register(_i, "alone_%d" % _i)
    ALONE[_i] = build(sdl_of(_i), "alone_%d" % _i, query_cache_decorator=DictCache())
# ---- co-resident: every subset (>= 2), registration order and cooking order ----------------------------------------
SchemaRegistry.clean()
COMBOS = []
ENG = {}
for _sub in (() if CHILD else ([1, 2], [1, 3], [2, 3], [1, 2, 3], [2, 4], [5, 2], [5, 4, 1])):
    for _reg in itertools.permutations(_sub):
        for _cook in itertools.permutations(_sub):
            _c = len(COMBOS)
            COMBOS.append({"subset": _sub, "reg": list(_reg), "cook": list(_cook)})
            for _i in _reg:
                register(_i, "co_%d_%d" % (_c, _i))
            for _i in _cook:
                ENG[(_c, _i)] = build(sdl_of(_i), "co_%d_%d" % (_c, _i), query_cache_decorator=DictCache())
# the unnamed ("default") schema next to named ones, both orders
DEFAULT_SCEN = []
if not CHILD:
    # (bundle under "default", bundle under a name, registration order, cooking order); the bare bundle 4 next to a default bundle that has a
    # subscription source and a @TypeResolver is the interesting pairing: nothing of "default" may fill the gaps of the named schema
    for _bd, _bn in ((3, 1), (2, 4), (4, 2), (5, 2)):
        for _reg in (("default", "named"), ("named", "default")):
            for _cook in (("default", "named"), ("named", "default")):
                _c = len(COMBOS)
                COMBOS.append({"subset": [_bd, _bn], "reg": list(_reg), "cook": list(_cook), "default_schema": _bd})
                SchemaRegistry._schemas.pop("default", None)
                for _who in _reg:
                    if _who == "default":
                        register(_bd, None)
                    else:
                        register(_bn, "co_%d_%d" % (_c, _bn))
                for _who in _cook:
                    if _who == "default":
                        ENG[(_c, _bd)] = env.build(sdl_of(_bd), None, query_cache_decorator=DictCache())
                    else:
                        ENG[(_c, _bn)] = build(sdl_of(_bn), "co_%d_%d" % (_c, _bn), query_cache_decorator=DictCache())
# one scalar class registered for TWO schema names by stacking the decorators (documented usage): still one implementation state per schema name
STACKED = {}
if not CHILD:
    register(1, "stk_a", tk=False); register(2, "stk_b", tk=False)
    Scalar("Tk", schema_name="stk_a")(Scalar("Tk", schema_name="stk_b")(TkState))
    STACKED[1] = build(sdl_of(1), "stk_a", query_cache_decorator=DictCache())
    STACKED[2] = build(sdl_of(2), "stk_b", query_cache_decorator=DictCache())
# a cook that FAILS for one schema name (an application that survives it, e.g. one tenant's schema is broken): the other names' registrations are intact
SURV = {}
BROKEN = {"failed": False}
if not CHILD:
    register(1, "surv_a"); register(2, "surv_b")

    @Resolver("Query.doesNotExist", schema_name="broken_x")
    async def _nowhere(parent, args, ctx, info):
        return None
    try:
        build("type Query { a: Int }", "broken_x")
    except Exception:
        BROKEN["failed"] = True
    SURV[1] = build(sdl_of(1), "surv_a", query_cache_decorator=DictCache())
    try:
        build("type Query { a: Undefined }", "broken_y")
    except Exception:
        pass
    SURV[2] = build(sdl_of(2), "surv_b", query_cache_decorator=DictCache())
TK_Q = "{ tk }"
FIRST_TK = {}
for _key, _e in [(("alone", k), e) for k, e in ALONE.items()] + [(("co",) + k, e) for k, e in ENG.items()] + [(("stacked", k), e) for k, e in STACKED.items()] + [(("survivor", k), e) for k, e in SURV.items()]:
    FIRST_TK[_key] = env.run(_e.execute(TK_Q))          # the very first serialisation of the token "k" by this engine
    probe(_e, 1)


@obligation(tier="quick", timeout=300, shards=[{"lo": lo} for lo in range(0, len(COMBOS), 12)],
            samples=[{"c": 0, "b": 0, "x": 3}, {"c": 11, "b": 1, "x": None}],
            symbolic=["x: Optional[int] — variable of the echo request (goes through the bundle's own scalar)"],
            selectors=["c: co-residence scenario (subset, registration order, cooking order; 12 per shard)", "b: which engine of the scenario is probed"],
            bounds="%d scenarios" % len(COMBOS),
            note="every co-resident engine answers 6 requests + 1 subscription exactly like its bundle built alone")
def c17_coresident(c: int, b: int, x: Optional[int]) -> bool:
    """
    post: _
    """
    lo = shard()["lo"]
    c = lo + pick(c, min(12, len(COMBOS) - lo))
    sub = COMBOS[c]["subset"]
    i = sub[pick(b, len(sub))]
    ok, got = safe(lambda: probe(ENG[(c, i)], x))
    if x is not None and not (-10 ** 6 < x < 10 ** 6):
        return True            # the bundles' toy scalar multiplies its input: keep the products small
    ref = oracle(i, x)
    observe(COMBOS[c], i, got, ref)
    return verdict(ok and got == ref)


@obligation(tier="quick", timeout=60, samples=[{"i": 0}, {"i": 2}], selectors=["i: bundle"], bounds="5 bundles",
            note="reference validity: each bundle built alone in a fresh process (and alone after SchemaRegistry.clean() in this process) answers exactly what the oracle says")
def c17_alone(i: int) -> bool:
    """
    post: _
    """
    i = 1 + pick(i, 5)
    ok, here = safe(lambda: probe(ALONE[i], 3))
    observe(FRESH_ALONE[i], here, oracle(i, 3))
    return verdict(ok and FRESH_ALONE[i] == oracle(i, 3) and here == oracle(i, 3))


# ---- registry lookups with a symbolic schema name -------------------------------------------------------------------
class Stub:
    def __init__(self, name, owner, log):
        self.name = name; self.owner = owner; self.log = log

    def bake(self, schema):
        self.log.append((self.owner, self.name))


class FakeSchema:
    def __init__(self, name):
        self.name = name


REG_KINDS = [("directives", SchemaRegistry.register_directive), ("resolvers", SchemaRegistry.register_resolver), ("type_resolvers", SchemaRegistry.register_type_resolver),
             ("scalars", SchemaRegistry.register_scalar), ("subscriptions", SchemaRegistry.register_subscription)]
BAKED = []
SchemaRegistry.clean()          # the engines above are built; from here on the registry only holds the stub objects
for _owner in (() if CHILD else ("alpha", "beta", "alph", "Alpha", "alpha ")):
    for _kind, _reg in REG_KINDS:
        _reg(_owner, Stub("x_" + _kind, _owner, BAKED))
REGISTERED = {"alpha", "beta", "alph", "Alpha", "alpha "}


@obligation(tier="quick", timeout=120, samples=[{"s": "alpha"}, {"s": "nope"}, {"s": ""}],
            symbolic=["s: str — the schema name looked up / baked (all strings)"], bounds="5 registered names (incl. a prefix, a case variant and a trailing-space variant of another)",
            note="bake_registered_objects(schema named s) bakes exactly the objects registered under s (all 5 kinds) and nothing registered under any other name; unknown names bake nothing")
def c17_registry(s: str) -> bool:
    """
    post: _
    """
    del BAKED[:]
    try:
        SchemaRegistry.bake_registered_objects(FakeSchema(s))
        raised = False
    except KeyError:
        raised = True
    owners = [o for o, _ in BAKED]
    for name in REGISTERED:
        if s == name:
            return verdict(not raised and len(BAKED) == 5 and all(o == name for o in owners))
    return verdict(not BAKED)



@obligation(tier="quick", timeout=60, samples=[{"i": 0}], selectors=["i: unused (all engines of the process are inspected; their first answers were taken at build time)"],
            bounds="every engine built by this harness (%d), incl. two whose stateful scalar class was registered by stacked decorators" % len(FIRST_TK),
            note="a stateful scalar: every engine's FIRST serialisation of a token answers \"new\" (no other schema name's engine has filled its state), later ones \"seen\"")
def c17_scalar_state(i: int) -> bool:
    """
    post: _
    """
    bad = [k for k, r in FIRST_TK.items() if r != {"data": {"tk": "new"}}]
    observe(bad[:5], len(FIRST_TK))
    if bad:
        return verdict(False)
    for e in list(STACKED.values()):
        ok, r = safe(lambda: env.run(e.execute(TK_Q)))
        if not ok or r != {"data": {"tk": "seen"}}:
            return verdict(False)
    return verdict(len(FIRST_TK) > 0)



@obligation(tier="quick", timeout=120, samples=[{"i": 0, "x": 3}, {"i": 1, "x": None}],
            symbolic=["x: Optional[int] — variable of the echo request"], selectors=["i: which surviving bundle"],
            bounds="2 bundles registered before, cooked after, another schema name's cook failed (a resolver for an unknown field; an undefined field type)",
            note="a failed cook of ONE schema name leaves the other names alone: a bundle registered before the failure and cooked after it behaves exactly like the bundle built alone")
def c17_after_failed_cook(i: int, x: Optional[int]) -> bool:
    """
    post: _
    """
    i = 1 + pick(i, 2)
    if x is not None and not (-10 ** 6 < x < 10 ** 6):
        return True
    ok, got = safe(lambda: probe(SURV[i], x))
    ref = oracle(i, x)
    observe(i, got, ref, BROKEN["failed"])
    return verdict(ok and BROKEN["failed"] and got == ref)
