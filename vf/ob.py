"""Obligation registry. A harness module declares

    @obligation(tier="quick", timeout=120, shards=[{"tmpl": 0}, ...], samples=[{...kwargs...}], note="...")
    def c01_exec(s: bool, n: int) -> bool:
        '''
        pre: ...
        post: _
        '''

`shards` are concrete configurations (selectors resolved outside the solver): one worker process per
(function, shard); the function reads the current one with `vf.ob.shard()`.  `samples` are concrete keyword
arguments used by the trace-equivalence self-test (plain CPython run == traced run) and as evidence samples.
"""
import json, os

_REG = {}            # module name -> [Ob]
_SHARD = {}


class Ob:
    def __init__(self, fn, tier, timeout, shards, samples, note, symbolic, selectors, bounds, quick_shards, findings, thorough_timeout=None):
        self.fn = fn
        self.name = fn.__name__
        self.module = fn.__module__
        self.tier = tier
        self.timeout = timeout
        self.thorough_timeout = thorough_timeout or timeout * 4
        self.shards = shards if shards is not None else [{}]
        self.quick_shards = quick_shards      # None = all shards in quick tier; else indices
        self.samples = samples or []
        self.note = note
        self.symbolic = symbolic or []        # names of value variables (solver-quantified)
        self.selectors = selectors or []      # names of bounded selector variables
        self.bounds = bounds or ""
        self.findings = findings or []        # ids of known findings this obligation is able to hit


def obligation(tier="quick", timeout=90, shards=None, samples=None, note="", symbolic=None, selectors=None,
               bounds="", quick_shards=None, findings=None, thorough_timeout=None):
    def deco(fn):
        ob = Ob(fn, tier, timeout, shards, samples, note, symbolic, selectors, bounds, quick_shards, findings, thorough_timeout)
        _REG.setdefault(fn.__module__, []).append(ob)
        fn._vf_ob = ob
        return fn
    return deco


def obligations(module_name):
    return list(_REG.get(module_name, []))


def set_shard(d):
    _SHARD.clear()
    _SHARD.update(d or {})


def shard():
    return _SHARD


# ---- known findings ------------------------------------------------------------------------------------
_KF = None


def known_findings():
    global _KF
    if _KF is None:
        p = os.path.join(os.path.dirname(os.path.dirname(os.path.abspath(__file__))), "known_findings.json")
        try:
            _KF = json.load(open(p))
        except FileNotFoundError:
            _KF = {"findings": [], "fixed": []}
    return _KF


def finding_open(fid):
    """True when finding `fid` is listed (open) in known_findings.json and skipping is not disabled.
    Obligations call this to exclude exactly the inputs a listed finding's predicate recognises."""
    if os.environ.get("VF_NO_SKIP") == "1":
        return False
    return any(f.get("id") == fid for f in known_findings().get("findings", []))
