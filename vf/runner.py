"""vcheck front-end: obligations -> worker processes -> verdicts -> replay -> evidence (DESIGN §2.5/2.6)."""
import sys, os, json, time, subprocess, argparse, random, importlib, traceback, concurrent.futures as cf

VERIF = os.path.dirname(os.path.dirname(os.path.abspath(__file__)))
PY = os.path.join(VERIF, ".venv", "bin", "python")
EVID = os.environ.get("VF_EVID") or os.path.join(VERIF, "evidence")   # VF_EVID: mutation trials must not overwrite the real evidence
MULT = float(os.environ.get("VF_TIMEOUT_MULT", "2"))     # obligations are sized to exhaust well inside their nominal timeout; the margin absorbs a loaded machine
STUBS = [
    "S-FFI: libgraphqlparser.so is absent in this sandbox; the C parser is replaced by vf/gqlfront.py (validated by the repo's functional suite, `vcheck ffi-selftest`); everything after _parse_to_json_ast is the real code",
    "S-LOOP: asyncio selector loop replaced by vf/miniloop.py (FIFO ready queue, real Task/Future/gather); pending resolver gates are released in a solver-chosen order",
    "S-FMT: format()/f-string of a symbolic number yields '<sym>' (message wording not checked); plain objects use their own __format__",
    "S-CH: CrossHair's functools.partial patch and lru_cache bypass removed (traced == plain run checked per obligation sample)",
    "S-JSON: engines built with json_loader=identity (public option)",
]


def _run(cmd, timeout, env=None):
    t = time.time()
    try:
        p = subprocess.run(cmd, cwd=VERIF, capture_output=True, text=True, timeout=timeout, env=env)
        return p.returncode, p.stdout, p.stderr, time.time() - t
    except subprocess.TimeoutExpired as e:
        so = e.stdout.decode() if isinstance(e.stdout, bytes) else (e.stdout or "")
        se = e.stderr.decode() if isinstance(e.stderr, bytes) else (e.stderr or "")
        return -9, so, se, time.time() - t


TRANSIENT = ("NO_MESSAGE", "WORKER_DIED", "CH_ERROR")


def run_job(job):
    """one worker process per job; an outcome that says nothing about the code (the analysis produced no message, the worker died) is tried once more
    before it is reported as a harness error — the first attempt is kept in the verdict"""
    v = _run_job_once(job)
    if v.get("state") in TRANSIENT and not job["twin"]:
        first = {"state": v.get("state"), "detail": (v.get("detail") or "")[-500:]}
        v = _run_job_once(job)
        v["retried_after"] = first
    return v


def _run_job_once(job):
    env = dict(os.environ)
    env["PYTHONHASHSEED"] = "0"
    env["PYTHONDONTWRITEBYTECODE"] = "1"
    if job["twin"]:
        env["VERIF_TWIN"] = "1"
    else:
        env.pop("VERIF_TWIN", None)
    cmd = [PY, "-m", "vf.worker", "check", job["module"], job["fn"], "--shard", json.dumps(job["shard"]),
           "--timeout", str(job["timeout"]), "--path-timeout", str(job.get("path_timeout", 30))]
    rc, so, se, dt = _run(cmd, job["timeout"] * 1.5 + 90, env)
    v = None
    for line in so.splitlines():
        if line.startswith("@@VERDICT "):
            v = json.loads(line[len("@@VERDICT "):])
    if v is None:
        v = {"state": "WORKER_DIED" if rc != -9 else "HARD_TIMEOUT", "detail": (se or so)[-3000:], "wall_s": round(dt, 2)}
    v.setdefault("module", job["module"]); v.setdefault("fn", job["fn"]); v.setdefault("shard", job["shard"])
    v["twin"] = job["twin"]
    return v


def replay(path):
    rc, so, se, dt = _run([PY, "-m", "vf.worker", "replay", path], 600, dict(os.environ, PYTHONHASHSEED="0"))
    return rc, (so + se)[-4000:]


def load_known():
    try:
        return json.load(open(os.path.join(VERIF, "known_findings.json")))
    except FileNotFoundError:
        return {"findings": [], "fixed": []}


def check(pid, tier, seed, only=None, jobs_n=None):
    t0 = time.time()
    os.makedirs(os.path.join(EVID, "replays"), exist_ok=True)
    for f in os.listdir(os.path.join(EVID, "replays")):
        if f.startswith(pid + "-"):
            os.remove(os.path.join(EVID, "replays", f))
    modname = "harness." + pid
    sys.path.insert(0, VERIF)
    lines = []
    violations = []
    harness_errors = []
    try:
        from vf import ob as obmod
        mod = importlib.import_module(modname)
        obs = obmod.obligations(modname)
        meta = getattr(mod, "META", {})
    except Exception:
        tb = traceback.format_exc()
        # the real code raising while the catalogue engines are built is a violation (all catalogue SDL is valid)
        frames = [l for l in tb.splitlines() if l.strip().startswith("File ")]
        last = frames[-1] if frames else ""
        rp = os.path.join(EVID, "replays", f"{pid}-import.json")
        json.dump({"module": modname, "fn": None, "import_only": True, "import_failure": tb[-4000:]}, open(rp, "w"), indent=1)
        repo = os.environ.get("VF_REPO", "/repo")
        # any frame inside the repository below the harness: the real code raised while a (valid) catalogue schema was being built
        if any((repo + "/tartiflette") in l for l in frames):
            print(tb[-2000:])
            print(f"VIOLATION property={pid} replay={rp}")
            write_evidence(pid, tier, seed, t0, [], [], 1, {}, note="harness import failed inside tartiflette: " + last.strip())
            return 1
        print(tb)
        print(f"HARNESS-ERROR property={pid} harness import failed")
        return 2

    jobs = []
    for o in obs:
        if only and o.name not in only:
            continue
        if o.tier == "replay" or (tier == "quick" and o.tier != "quick"):
            continue
        shards = list(enumerate(o.shards))
        if tier == "quick" and o.quick_shards is not None:
            shards = [shards[i] for i in o.quick_shards]
        for i, sh in shards:
            jobs.append({"module": modname, "fn": o.name, "shard": sh, "timeout": int((o.timeout if tier == "quick" else o.thorough_timeout) * MULT), "twin": False})
        if shards:
            jobs.append({"module": modname, "fn": o.name, "shard": shards[0][1], "timeout": min(o.timeout, 60), "twin": True})
    random.Random(seed).shuffle(jobs)
    jobs.sort(key=lambda j: -j["timeout"])     # long ones first
    n = jobs_n or int(os.environ.get("VF_JOBS", "16"))
    results = []
    with cf.ThreadPoolExecutor(max_workers=n) as ex:
        for v in ex.map(run_job, jobs):
            results.append(v)

    obmap = {o.name: o for o in obs}
    records = []
    nrep = 0
    for v in results:
        o = obmap[v["fn"]]
        rec = {"obligation": v["fn"], "shard": v["shard"], "state": v["state"], "paths": v.get("paths", 0),
               "queries": v.get("queries", 0), "solver_s": v.get("solver_s", 0.0), "wall_s": v.get("wall_s", 0.0),
               "twin": v["twin"]}
        st = v["state"]
        if v["twin"]:
            if st == "POST_FAIL":
                rec["verdict"] = "twin-reached"
            elif st in ("CONFIRMED", "PRE_UNSAT"):
                rec["verdict"] = "harness-error"
                harness_errors.append(f"vacuous: twin of {v['fn']} {v['shard']} is {st}")
            elif st == "IMPORT_FAIL":
                rec["verdict"] = "import-fail"
            else:
                rec["verdict"] = "twin-inconclusive"
                rec["detail"] = (v.get("message") or v.get("detail") or "")[:500]
            records.append(rec)
            continue
        if st == "CONFIRMED":
            rec["verdict"] = "discharged"
        elif st in ("POST_FAIL", "EXEC_ERR") and v.get("args") is not None:
            nrep += 1
            rp = os.path.join(EVID, "replays", f"{pid}-{v['fn']}-{nrep}.json")
            json.dump({"property": pid, "module": modname, "fn": v["fn"], "shard": v["shard"], "args": v["args"],
                       "message": v.get("message")}, open(rp, "w"), indent=1, default=repr)
            rc, outp = replay(rp)
            rec["replay"] = rp; rec["args"] = v["args"]
            if rc == 1:
                rec["verdict"] = "violation"
                violations.append((rp, v, outp))
            else:
                rec["verdict"] = "harness-error"
                rec["detail"] = outp[-1500:]
                harness_errors.append(f"{v['fn']} {v['shard']}: {st} args={v['args']} did not reproduce (rc={rc})")
        elif st == "REPEAT_DIFF":
            # the same concrete sample run twice in one process gave two different observations: the response depends on history
            nrep += 1
            rp = os.path.join(EVID, "replays", f"{pid}-{v['fn']}-{nrep}.json")
            json.dump({"property": pid, "module": modname, "fn": v["fn"], "shard": v["shard"], "args": v["args"], "repeat": True, "sequence": v.get("sequence")}, open(rp, "w"), indent=1, default=repr)
            rc, outp = replay(rp)
            rec["replay"] = rp; rec["args"] = v["args"]
            if rc == 1:
                rec["verdict"] = "violation"; violations.append((rp, v, outp))
            else:
                rec["verdict"] = "harness-error"; harness_errors.append(f"{v['fn']} {v['shard']}: repeated sample differed in the worker but not in a fresh process")
        elif st == "REPEAT_DIFF":
            # the same concrete sample run twice in one process gave two different observations: the response depends on history
            nrep += 1
            rp = os.path.join(EVID, "replays", f"{pid}-{v['fn']}-{nrep}.json")
            json.dump({"property": pid, "module": modname, "fn": v["fn"], "shard": v["shard"], "args": v["args"], "repeat": True, "sequence": v.get("sequence")}, open(rp, "w"), indent=1, default=repr)
            rc, outp = replay(rp)
            rec["replay"] = rp; rec["args"] = v["args"]
            if rc == 1:
                rec["verdict"] = "violation"; violations.append((rp, v, outp))
            else:
                rec["verdict"] = "harness-error"; harness_errors.append(f"{v['fn']} {v['shard']}: repeated sample differed in the worker but not in a fresh process")
        elif st == "IMPORT_FAIL":
            nrep += 1
            rp = os.path.join(EVID, "replays", f"{pid}-{v['fn']}-{nrep}.json")
            json.dump({"property": pid, "module": modname, "fn": v["fn"], "shard": v["shard"], "args": {}}, open(rp, "w"))
            rc, outp = replay(rp)
            if rc == 1:
                rec["verdict"] = "violation"; rec["replay"] = rp
                violations.append((rp, v, outp))
            else:
                rec["verdict"] = "harness-error"; harness_errors.append(f"{v['fn']}: import failed in worker only")
        elif st in ("CANNOT_CONFIRM", "HARD_TIMEOUT"):
            rec["verdict"] = "inconclusive"
            rec["detail"] = (v.get("message") or v.get("detail") or "")[:300]
        else:
            rec["verdict"] = "harness-error"
            rec["detail"] = (v.get("message") or "") + (v.get("detail") or "") + json.dumps(v.get("selftest", ""))[:1500]
            harness_errors.append(f"{v['fn']} {v['shard']}: {st} {rec['detail'][:600]}")
        if "selftest" in v:
            rec["trace_equiv_samples"] = len(v["selftest"])
        rec["_functions"] = v.get("functions_encoded", [])
        records.append(rec)

    # E2 obligations (SMT queries over the translated kernels), when the harness has them
    if hasattr(mod, "run_e2") and not only:
        for rec in mod.run_e2(tier, EVID):
            rec.setdefault("twin", False); rec.setdefault("shard", {}); rec["_functions"] = rec.pop("functions", [])
            if rec.get("verdict") == "cex":
                nrep += 1
                rp = os.path.join(EVID, "replays", f"{pid}-e2-{nrep}.json")
                json.dump({"property": pid, "module": modname, "fn": "e2_replay", "shard": {}, "args": rec["args"]}, open(rp, "w"), indent=1)
                rc, outp = replay(rp)
                rec["replay"] = rp
                if rc == 1:
                    rec["verdict"] = "violation"
                    violations.append((rp, rec, outp))
                else:
                    rec["verdict"] = "harness-error"
                    harness_errors.append(f"E2 {rec['obligation']}: model {rec['args']} did not reproduce on the real function (rc={rc})")
            elif rec.get("verdict") == "harness-error":
                harness_errors.append(f"E2 {rec['obligation']}: {rec.get('detail','')[:300]}")
            records.append(rec)

    # known findings of this property: replay the witness; still failing -> KNOWN-FINDING line
    kf = load_known()
    for f in kf.get("findings", []):
        if f.get("property") != pid:
            continue
        w = dict(f["witness"]); w["no_skip"] = True
        rp = os.path.join(EVID, "replays", f"{pid}-known-{f['id']}.json")
        json.dump(w, open(rp, "w"), indent=1)
        rc, outp = replay(rp)
        if rc == 1:
            lines.append(f"KNOWN-FINDING: property={pid} {f['id']} {f['what']}")
        elif rc == 0:
            lines.append(f"NOTE: listed finding {f['id']} no longer reproduces (witness holds)")
        else:
            harness_errors.append(f"known finding {f['id']} witness replay error: {outp[-500:]}")

    for l in lines:
        print(l)
    main_recs = [r for r in records if not r["twin"]]
    disc = sum(1 for r in main_recs if r["verdict"] == "discharged")
    inc = [r for r in main_recs if r["verdict"] == "inconclusive"]
    for r in inc:
        print(f"INCONCLUSIVE property={pid} {r['obligation']} shard={json.dumps(r['shard'])} paths={r['paths']} ({r.get('detail','')[:120]})")
    for h in harness_errors:
        print(f"HARNESS-ERROR property={pid} {h}")
    seen = set()
    for rp, v, outp in violations:
        print(outp[-1200:])
        print(f"VIOLATION property={pid} replay={rp}")
    print(f"{pid} {tier}: obligations={len(main_recs)} discharged={disc} inconclusive={len(inc)} violations={len(violations)} "
          f"harness_errors={len(harness_errors)} paths={sum(r['paths'] for r in main_recs)} wall={time.time()-t0:.0f}s")
    write_evidence(pid, tier, seed, t0, records, obs, len(violations), meta, harness_errors=harness_errors, known=lines)
    if violations:
        return 1
    if harness_errors:
        return 2
    return 0


def write_evidence(pid, tier, seed, t0, records, obs, nviol, meta, note="", harness_errors=(), known=()):
    main_recs = [r for r in records if not r["twin"]]
    funcs = sorted({f for r in main_recs for f in r.pop("_functions", [])})
    for r in records:
        r.pop("_functions", None)
    disc = [r for r in main_recs if r["verdict"] == "discharged"]
    paths = sum(r["paths"] for r in main_recs)
    queries = sum(r["queries"] for r in main_recs)
    obinfo = {}
    for o in obs:
        obinfo[o.name] = {"note": o.note, "symbolic_value_vars": o.symbolic, "selector_vars": o.selectors,
                          "bounds": o.bounds, "tier": o.tier, "shards": len(o.shards),
                          "samples": o.samples[:2]}
    ev = {
        "property_id": pid, "tier": tier, "seed": seed, "level": "other",
        "coverage": {
            "explanation": "bounded symbolic execution of the real tartiflette functions (CrossHair 0.0.110 / z3) per obligation; "
                           "'discharged' = CrossHair exhausted the path tree ('Confirmed over all paths') so the postcondition holds for every "
                           "value of the symbolic parameters satisfying the stated precondition; inconclusive obligations are listed and claim nothing. "
                           + meta.get("explanation", ""),
            "evaluations": paths + queries,
            "distinct_nontrivial": sum(1 for r in disc if r["paths"] > 1),
            "rule": "one case = one explored path of one obligation shard; an obligation counts as non-trivial when discharged with more than one path",
            "obligations": len(main_recs),
            "discharged": len(disc),
            "inconclusive": [{"obligation": r["obligation"], "shard": r["shard"], "paths": r["paths"], "detail": r.get("detail", "")} for r in main_recs if r["verdict"] == "inconclusive"],
            "exhaustive": bool(main_recs) and len(disc) == len(main_recs),
            "paths": paths, "solver_queries": queries,
            "solver_s": round(sum(r["solver_s"] for r in main_recs), 2),
            "functions_encoded": funcs,
            "bounds": meta.get("bounds", ""),
            "outside_claim": meta.get("outside", ""),
            "stubs": STUBS + meta.get("stubs", []),
            "obligation_defs": obinfo,
            "samples": records[:400],
            "twins_reached": sum(1 for r in records if r["twin"] and r["verdict"] == "twin-reached"),
            "traces_validated_against_impl": sum(r.get("trace_equiv_samples", 0) for r in main_recs),
            "known_findings": list(known),
            "harness_errors": list(harness_errors),
            "note": note,
        },
        "assumptions": STUBS + meta.get("assumptions", []) + ["CPython 3.12, z3 5.1, CrossHair 0.0.110 are trusted"],
        "wall_s": round(time.time() - t0, 2),
        "violations": nviol,
    }
    json.dump(ev, open(os.path.join(EVID, f"{pid}.json"), "w"), indent=1, default=repr)


def main():
    ap = argparse.ArgumentParser()
    ap.add_argument("what")
    ap.add_argument("rest", nargs="*")
    ap.add_argument("--tier", default=os.environ.get("VERIF_TIER", "quick"))
    ap.add_argument("--only", default=None)
    ap.add_argument("--jobs", type=int, default=None)
    a = ap.parse_args()
    seed = int(os.environ.get("VERIF_SEED", "0") or 0)
    if a.what == "replay":
        rc, out = replay(a.rest[0])
        print(out)
        sys.exit(rc)
    if a.what == "ffi-selftest":
        repo = os.environ.get("VF_REPO", "/repo")
        env = dict(os.environ, PYTHONPATH=VERIF)
        p = subprocess.run([PY, "-m", "pytest", "-q", "-p", "no:cacheprovider", "-p", "vf.ffi_pytest_plugin", "-o", "asyncio_mode=auto",
                            "tests/functional", "-n", "12"], cwd=repo, env=env)
        sys.exit(p.returncode)
    only = a.only.split(",") if a.only else None
    if a.what.startswith("C"):
        mod = None
        sys.exit(check(a.what, a.tier, seed, only, a.jobs))
    print("unknown command"); sys.exit(3)


if __name__ == "__main__":
    main()
