import os, sys
os.environ.setdefault("LIBGRAPHQLPARSER_DIR", "/verif/probes/lib")
sys.path.insert(0, os.environ.get("VF_REPO", "/repo")); sys.path.insert(0, "/verif/probes")
import gqlfront, miniloop
import tartiflette
from tartiflette import create_engine, Resolver
from tartiflette.language.parsers.libgraphqlparser import parser as _p
from tartiflette.types.exceptions.tartiflette import GraphQLSyntaxError
import asyncio

def _model_parse(query):
    try:
        return gqlfront.parse(query)
    except gqlfront.GQLSyntaxError as e:
        raise GraphQLSyntaxError(str(e))
_p._parse_to_json_ast = _model_parse

def build(sdl, name, **kw):
    return asyncio.run(create_engine(sdl, schema_name=name, json_loader=lambda x: x, **kw))

class DictCache:
    """public query_cache_decorator API: pre-warmable dict cache"""
    def __init__(self): self.d = {}
    def __call__(self, fn):
        def w(q, s):
            k = (q, id(s))
            if k not in self.d:
                self.d[k] = fn(q, s)
            return self.d[k]
        return w
