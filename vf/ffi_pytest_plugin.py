"""pytest plugin: run the repository's own tests with the FFI model in place of the absent C parser
(`vcheck ffi-selftest`). Here the model returns JSON bytes, as the C function does, because the tests use the
default json_loader."""
import os, sys, json
VERIF = os.path.dirname(os.path.dirname(os.path.abspath(__file__)))
os.environ.setdefault("LIBGRAPHQLPARSER_DIR", os.path.join(VERIF, ".build", "lib"))
sys.path.insert(0, VERIF)
from vf import gqlfront
from tartiflette.language.parsers.libgraphqlparser import parser as _p
from tartiflette.types.exceptions.tartiflette import GraphQLSyntaxError


def _model(query):
    try:
        return json.dumps(gqlfront.parse(query)).encode()
    except gqlfront.GQLSyntaxError as e:
        raise GraphQLSyntaxError(str(e))
    except UnicodeDecodeError:
        raise GraphQLSyntaxError("1.1: syntax error, invalid utf-8")


_p._parse_to_json_ast = _model
