"""C07 — a document breaking a supported validation rule is answered `data: null` + errors, and no resolver, type
resolver or field/argument/value-level directive hook runs, wherever the violation sits.  (DESIGN §4 C07)"""
from typing import Optional
from vf import env, vworld
from vf.env import pick, pickb, verdict, observe, safe
from vf.ob import obligation, shard, finding_open
from vf import gqlfront
from crosshair.tracers import NoTracing

META = {
    "bounds": "schema V; one valid base document with 6 injection sites (operation, nested selection, named fragment, inline fragment, nested named fragment, mutation) x "
              "selection-level rewrites for 17 rules; 40 definition-level invalid documents for the remaining rules; wrapper-bit generator for 5.8.5 (variable and position "
              "wrappers <= 2); symbolic int literals for 5.6.1 (all integers)",
    "outside": "rule 5.3.2 (field selection merging) and input-object default validity, which the project does not list as supported; syntax errors (C18)",
    "explanation": "Every generated document is invalid by construction for exactly one supported rule; expected: data null, errors non-empty, all run counters zero.",
}
ENG = vworld.make("c07")

BASE = """query Q($v: Int, $o: Inp) @tag {
  a @tag(n: 1)
  q { b ...F }
  node { id ... on A { n } }
  arg(i: $v, o: $o, li: [1, 2])
  %(top)s
  q { x: a %(nested)s }
  ... on Query { y: a %(inline)s }
}
fragment F on Query { a %(frag)s q { ...G } }
fragment G on Query { b %(frag2)s }
"""
MUT = "mutation M { set(v: 1) %(mut)s }"
SITES = ["top", "nested", "inline", "frag", "frag2"]

# selection-level rewrites: text injected into a selection set whose parent type is Query (one rule each)
INJECT = [
    ("5.3.1", "zzz"), ("5.3.1", "node { zzz }"), ("5.3.1", "u { id }"), ("5.3.1", "node { ... on B { n } }"),
    ("5.3.3", "z: a { x }"), ("5.3.3", "z: q"), ("5.3.3", "z: node"), ("5.3.3", "z: node { id { x } }"),
    ("5.4.1", "arg(zzz: 1)"), ("5.4.1", "z: a @tag(zzz: 1)"), ("5.4.2", "arg(i: 1, i: 2)"), ("5.4.2", "z: a @tag(n: 1, n: 1)"),
    ("5.4.2.1", "req"), ("5.4.2.1", "req(x: null)"),
    ("5.5.1.2", "... on Nope { a }"), ("5.5.1.3", "... on Int { a }"), ("5.5.1.3", "... on Inp { x }"), ("5.5.1.3", "... on Color { a }"),
    ("5.5.2.1", "...Nope"), ("5.5.2.3", "... on A { n }"), ("5.5.2.3", "node { ... on C { x } }"), ("5.5.2.3", "u { ... on C { x } }"), ("5.5.2.3", "c { ... on Node { id } }"),
    ("5.6.1", "arg(i: \"s\")"), ("5.6.1", "arg(i: 1.5)"), ("5.6.1", "arg(i: true)"), ("5.6.1", "arg(s: 1)"), ("5.6.1", "arg(b: 1)"), ("5.6.1", "arg(b: \"true\")"),
    ("5.6.1", "arg(c: \"RED\")"), ("5.6.1", "arg(c: BLUE)"), ("5.6.1", "arg(c: 1)"), ("5.6.1", "arg(f: \"1.5\")"), ("5.6.1", "arg(id: 1.5)"), ("5.6.1", "arg(id: RED)"),
    ("5.6.1", "arg(li: [\"s\"])"), ("5.6.1", "arg(li: [1, \"s\"])"), ("5.6.1", "arg(lli: [[1], [\"s\"]])"), ("5.6.1", "arg(o: {x: \"s\"})"), ("5.6.1", "arg(o: {x: 1, inner: {x: \"s\"}})"),
    ("5.6.1", "arg(o: {x: 1, y: [\"s\"]})"), ("5.6.1", "arg(o: {y: [1]})"), ("5.6.1", "arg(o: {x: null})"), ("5.6.1", "arg(o: {x: 1, zzz: 1})"), ("5.6.1", "arg(o: 1)"),
    ("5.6.1", "arg(lo: [{x: 1}, null])"), ("5.6.1", "z: a @tag(n: \"s\")"), ("5.6.1", "arg(ni: null)"), ("5.6.1", "arg(i: {x: 1})"), ("5.6.1", "arg(s: RED)"),
    # a violation next to well-typed siblings (before / after a list-typed, object-typed or scalar sibling)
    ("5.6.1", "arg(i: \"s\", li: [1, 2])"), ("5.6.1", "arg(li: [1, 2], i: \"s\")"), ("5.6.1", "arg(i: \"s\", o: {x: 1})"), ("5.6.1", "arg(s: 1, lli: [[1]], b: true)"),
    ("5.6.1", "arg(o: {x: \"s\", y: [1, 2]})"), ("5.6.1", "arg(o: {y: [1], x: \"s\"})"), ("5.6.1", "arg(o: {x: 1, inner: {zzz: 1, y: []}})"), ("5.6.1", "arg(o: {x: 1, inner: {x: \"s\", y: [1]}, y: [2]})"),
    ("5.6.1", "arg(o: {c: BLUE, y: [1], x: 1})"), ("5.6.1", "z: a @tag(n: \"s\", l: [1])"), ("5.6.1", "z: a @tag(l: [1], n: \"s\")"), ("5.6.1", "arg(lo: [{x: \"s\", y: [1]}])"),
    ("5.4.1", "arg(zzz: 1, li: [1])"), ("5.4.1", "z: a @bare(bogus: 1)"), ("5.4.1", "... @bare(x: true) { z: a }"), ("5.4.1", "z: a @bare @tag(n: 1) @lim(maxx: 1)"), ("5.4.1", "z: a @mark(n: 1)"), ("5.8.3", "arg(i: $undef, li: [1])"), ("5.8.5", "arg(s: $v, li: [1, 2])"),
    ("5.6.3", "arg(o: {x: 1, x: 2})"), ("5.6.3", "arg(o: {x: 1, inner: {x: 1, x: 2}})"),
    ("5.7.1", "z: a @nope"), ("5.7.1", "... @nope { z: a }"), ("5.7.2", "z: a @onlyq"), ("5.7.2", "... @onlyq { z: a }"), ("5.7.2", "z: a @mark"), ("5.7.2", "z: a @deprecated"),
    ("5.7.3", "z: a @tag @tag"), ("5.7.3", "z: a @skip(if: true) @skip(if: false)"), ("5.7.3", "... @tag @tag(n: 1) { z: a }"),
    ("5.8.3", "arg(i: $undef)"), ("5.8.3", "arg(li: [$undef])"), ("5.8.3", "arg(o: {x: $undef})"), ("5.8.3", "z: a @tag(n: $undef)"), ("5.8.3", "z: a @skip(if: $undef)"),
    ("5.8.5", "arg(s: $v)"), ("5.8.5", "arg(li: $v)"), ("5.8.5", "req(x: $v)"), ("5.8.5", "arg(i: $o)"), ("5.8.5", "z: a @skip(if: $v)"), ("5.8.5", "z: a @tag(n: $o)"),
]
NINJ = len(INJECT)

# definition-level invalid documents (whole texts)
DEFDOCS = [
    ("5.2.1.1", "query A { a } query A { b }"), ("5.2.1.1", "query A { a } mutation A { set(v: 1) }"), ("5.2.1.1", "query A { a } query B { a } query A { a }"),
    ("5.2.2.1", "{ a } query A { b }"), ("5.2.2.1", "query A { b } { a }"), ("5.2.2.1", "{ a } { b }"),
    ("5.2.3.1", "subscription S { t1 t2 }"), ("5.2.3.1", "subscription S { t1 ...F } fragment F on Subscription { t2 }"), ("5.2.3.1", "subscription S { ... on Subscription { t1 t2 } }"),
    ("5.2.3.1", "subscription S1 { t1 } subscription S2 { t1 t2 }"), ("5.2.3.1", "subscription S1 { t1 t2 } subscription S2 { t1 }"), ("5.2.3.1", "subscription S { t1 x: t1 }"),
    ("5.5.1.1", "{ ...F } fragment F on Query { a } fragment F on Query { b }"), ("5.5.1.4", "{ a } fragment F on Query { a }"),
    ("5.5.1.4", "{ ...F } fragment F on Query { a } fragment G on Query { b }"), ("5.5.1.2", "{ ...F } fragment F on Nope { a }"), ("5.5.1.3", "{ ...F } fragment F on Int { a }"),
    ("5.5.2.2", "{ ...F } fragment F on Query { a ...F }"), ("5.5.2.2", "{ ...F } fragment F on Query { ...G } fragment G on Query { ...F }"),
    ("5.5.2.2", "{ ...F } fragment F on Query { ...G } fragment G on Query { ...H } fragment H on Query { a ...F }"),
    ("5.5.2.2", "{ ...F } fragment F on Query { a q { ...F } }"), ("5.5.2.2", "{ ...F } fragment F on Query { ... on Query { ...G } } fragment G on Query { q { ...F } }"),
    ("5.5.2.2", "{ ...A ...A ...B } fragment A on Query { a ...B } fragment B on Query { b ...C } fragment C on Query { ...B }"),
    ("5.8.1", "query Q($v: Int, $v: Int) { arg(i: $v) }"), ("5.8.1", "query Q($v: Int, $w: Int, $v: String) { arg(i: $v, s: $w) }"),
    ("5.8.2", "query Q($v: Query) { a }"), ("5.8.2", "query Q($v: [A!]) { a }"), ("5.8.2", "query Q($v: U) { a }"), ("5.8.2", "query Q($v: Node!) { a }"),
    ("5.8.4", "query Q($v: Int) { a }"), ("5.8.4", "query Q($v: Int, $w: Int) { arg(i: $v) }"), ("5.8.4", "query A($v: Int) { arg(i: $v) } query B($v: Int) { a }"),
    ("5.8.3", "query A($v: Int) { ...F } query B { ...F } fragment F on Query { arg(i: $v) }"), ("5.8.3", "{ ...F } fragment F on Query { q { ...G } } fragment G on Query { arg(i: $v) }"),
    ("5.8.5", "query A($v: Int) { ...F } query B($v: String) { ...F } fragment F on Query { arg(i: $v) }"),
    ("5.8.5", "query B($v: String) { ...F } query A($v: Int) { ...F } fragment F on Query { arg(i: $v) }"),
    ("5.8.5", "query A($v: Int) { q { ...F } } fragment F on Query { ...G } fragment G on Query { req(x: $v) }"),
    ("5.6.1", "query Q($v: Int = \"s\") { arg(i: $v) }"), ("5.6.1", "query Q($v: [Int] = [\"s\"]) { arg(li: $v) }"), ("5.6.1", "query Q($v: Inp = {y: [1]}) { arg(o: $v) }"),
    ("5.7.2", "query Q @tag @skip(if: true) { a }"), ("5.7.2", "{ ...F } fragment F on Query @onlyq { a }"), ("5.7.3", "query Q @tag @tag { a }"),
    ("5.5.2.3", "{ ...F } fragment F on A { n }"), ("5.5.2.3", "{ node { ...F } } fragment F on C { x }"), ("5.5.2.3", "{ c { ...F } } fragment F on Node { id }"),
    ("5.5.2.3", "{ u { ...F } } fragment F on U { ...G } fragment G on C { x }"), ("5.5.2.3", "{ q { q { ...F } } } fragment F on B { flag }"),
    ("5.2.3.1", "subscription S { ...F } fragment F on Subscription { t1 t2 }"), ("5.2.3.1", "fragment F on Subscription { t1 t2 } subscription S { ...F }"),
    ("5.2.3.1", "subscription S { ...F } fragment F on Subscription { ...G } fragment G on Subscription { t1 x: t2 }"), ("5.2.3.1", "subscription S { ...F ...G } fragment G on Subscription { t2 } fragment F on Subscription { t1 }"),
    ("5.2.3.1", "query Q { a } subscription S { ...F } fragment F on Subscription { t1 t2(n: 1) }"),
    ("5.1.1", None),
]
F6_DOCS = {37, 38}       # variable defaults are not validated (known finding F6)


def expect_refused(text, variables, ast=None, op=None, subscribe=False):
    with NoTracing():
        if ast is None:
            ast = gqlfront.parse(text)
    vworld.reset()
    old = env.FFI._parse_to_json_ast
    env.FFI._parse_to_json_ast = lambda q: ast
    try:
        ok, resp = safe(lambda: env.run(ENG.execute(text, variables=dict(variables), operation_name=op, initial_value=vworld.ROOT)))
    finally:
        env.FFI._parse_to_json_ast = old
    observe(text, resp, list(vworld.LOG), list(vworld.TLOG), list(vworld.HLOG), list(vworld.SLOG))
    if not ok or not isinstance(resp, dict):
        return False
    if resp.get("data") is not None or not resp.get("errors"):
        return False
    return not vworld.LOG and not vworld.TLOG and not vworld.HLOG and not vworld.SLOG


def base_doc(site, inj):
    holes = {s: "" for s in SITES}
    holes[site] = inj
    return BASE % holes


def is_f14(rule, inj):
    """known finding F14: an *inline* fragment is registered under its own type condition instead of the enclosing type,
    so rule 5.5.2.3 never refuses an impossible inline fragment"""
    return rule == "5.5.2.3" and "... on" in inj


@obligation(tier="quick", timeout=300, shards=[{"site": s} for s in SITES] + [{"site": "mut"}],
            samples=[{"r": 0, "v": 1}, {"r": 40, "v": None}],
            symbolic=["v: Optional[int] value of $v (the request must be refused whatever the variables are)"],
            selectors=["r: rewrite (%d selection-level violations of 17 rules)" % NINJ, "shard: injection site"],
            bounds="rewrites x 6 sites", findings=["F14"],
            note="one rule-breaking selection injected at each site of an otherwise valid document")
def c07_inject(r: int, v: Optional[int]) -> bool:
    """
    post: _
    """
    site = shard()["site"]
    r = pick(r, NINJ)
    rule, inj = INJECT[r]
    if finding_open("F14") and is_f14(rule, inj):
        return True
    with NoTracing():
        txt = base_doc(site, inj) if site != "mut" else None
    if site == "mut":
        # the same violations inside a mutation's fragment: root type Mutation has no `arg`, use a Query-typed fragment reached from a query operation
        with NoTracing():
            if "$" in inj:
                return True
            txt = "mutation M { set(v: 1) other }\nquery Q { a ...F }\nfragment F on Query { b %s }" % inj
        return verdict(expect_refused(txt, {}, op="M") and expect_refused(txt, {}, op="Q"))
    return verdict(expect_refused(txt, {"v": v, "o": {"x": 1}}))


def typesys_ast():
    ast = gqlfront.parse("{ a }")
    ast["definitions"].append({"kind": "ObjectTypeDefinition", "loc": ast["loc"], "name": {"kind": "Name", "loc": ast["loc"], "value": "X"}, "interfaces": None, "directives": None, "fields": None})
    return ast


@obligation(tier="quick", timeout=200,
            samples=[{"d": 0, "opsel": 0}, {"d": 9, "opsel": 1}],
            selectors=["d: definition-level invalid document (%d)" % len(DEFDOCS), "opsel: which operation is requested (first / second / none)"],
            bounds="definition-level catalogue", findings=["F6"],
            note="operation/fragment/variable uniqueness, lone anonymous, single subscription root, unused/undefined/cyclic fragments, variable rules through fragments, directives on definitions")
def c07_defs(d: int, opsel: int) -> bool:
    """
    post: _
    """
    d = pick(d, len(DEFDOCS)); opsel = pick(opsel, 3)
    rule, txt = DEFDOCS[d]
    if finding_open("F6") and d in F6_DOCS:
        return True
    with NoTracing():
        ast = typesys_ast() if txt is None else gqlfront.parse(txt)
        txt = txt or "{ a } type X"
        names = [x["name"]["value"] for x in ast["definitions"] if x["kind"] == "OperationDefinition" and x.get("name")]
    op = None
    if names and opsel < 2:
        op = names[min(opsel, len(names) - 1)]
    variables = {"v": 1, "w": 2} if "$v" in txt else {}
    return verdict(expect_refused(txt, variables, ast=ast, op=op))


# ---- 5.6.1 with a symbolic int literal: every integer outside 32 bits is refused at every nesting --------------------
INT_SITES = ["arg(i: 1000001)", "arg(li: [1, 1000001])", "arg(lli: [[1000001]])", "arg(o: {x: 1000001})", "arg(o: {x: 1, inner: {x: 1000001}})",
             "arg(o: {x: 1, y: [1000001]})", "z: a @tag(n: 1000001)", "arg(lo: [{x: 1000001}])", "req(x: 1000001)"]


def subst_int(node, n):
    if isinstance(node, list):
        return [subst_int(x, n) for x in node]
    if not isinstance(node, dict):
        return node
    if node.get("kind") == "IntValue" and node["value"] == "1000001":
        return dict(node, value=n)
    return {k: subst_int(v, n) for k, v in node.items()}


@obligation(tier="quick", timeout=200, shards=[{"site": s} for s in ("top", "frag2")],
            samples=[{"k": 0, "n": 2**31}, {"k": 4, "n": 5}, {"k": 0, "n": -2**31}, {"k": 3, "n": 2**31 - 1}, {"k": 1, "n": -2**31 - 1}, {"k": 6, "n": 0}, {"k": 0, "n": -10**9}],
            symbolic=["n: int (unbounded) — the value of an Int literal (text abstracted as int(text)=n)"],
            selectors=["k: literal position (argument, list item, nested list, input field, nested input field, directive argument, list of objects)"],
            bounds="9 literal positions x 2 sites",
            note="an Int literal outside [-2^31, 2^31) is refused wherever it sits; inside the range the document is accepted")
def c07_int_range(k: int, n: int) -> bool:
    """
    post: _
    """
    site = shard()["site"]
    k = pick(k, len(INT_SITES))
    with NoTracing():
        txt = base_doc(site, INT_SITES[k])
        ast0 = gqlfront.parse(txt)
    ast = subst_int(ast0, n)
    if -2 ** 31 <= n <= 2 ** 31 - 1:
        vworld.reset()
        old = env.FFI._parse_to_json_ast
        env.FFI._parse_to_json_ast = lambda q: ast
        try:
            ok, resp = safe(lambda: env.run(ENG.execute(txt, variables={"v": 1, "o": {"x": 1}}, initial_value=vworld.ROOT)))
        finally:
            env.FFI._parse_to_json_ast = old
        observe(resp)
        return verdict(ok and resp.get("data") is not None and not resp.get("errors"))
    return verdict(expect_refused(txt, {"v": 1, "o": {"x": 1}}, ast=ast))


# ---- 5.8.5 over wrapper bits ------------------------------------------------------------------------------------
def wrap(base, bits):
    """bits: b0 inner non-null, b1 list, b2 outer non-null (only with list)"""
    t = base + ("!" if bits & 1 else "")
    if bits & 2:
        t = "[" + t + "]" + ("!" if bits & 4 else "")
    return t


POS = [("i", "Int"), ("ni", "Int!"), ("li", "[Int]"), ("lli", "[[Int]]"), ("s", "String"), ("lo", "[Inp!]")]


from vf.ref.validation import allowed  # noqa: E402


@obligation(tier="quick", timeout=240, shards=[{"base": b} for b in ("Int", "String", "Inp")],
            samples=[{"bits": 0, "p": 0, "dflt": False, "infrag": False}, {"bits": 3, "p": 2, "dflt": True, "infrag": True}],
            selectors=["bits: variable type wrappers (non-null / list / outer non-null)", "p: argument position (6 declared types)", "dflt: variable has a non-null default", "infrag: usage inside a fragment"],
            bounds="3 base types x 8 wrappings x 6 positions x default x site",
            note="variable used in a position whose type it is not compatible with (spec AreTypesCompatible) is refused and nothing runs; compatible usages are accepted")
def c07_var_position(bits: int, p: int, dflt: bool, infrag: bool) -> bool:
    """
    post: _
    """
    base = shard()["base"]
    bits = pick(bits, 8); p = pick(p, len(POS)); dflt = pickb(dflt); infrag = pickb(infrag)
    if bits & 4 and not bits & 2:
        return True
    vt = wrap(base, bits)
    an, pt = POS[p]
    with NoTracing():
        dv = {"Int": "1", "String": "\"s\"", "Inp": "{x: 1}"}[base]
        if bits & 2:
            dv = "[" + dv + "]"
        d = (" = " + dv) if dflt else ""
        if infrag:
            txt = "query Q($v: %s%s) { ...F } fragment F on Query { q { arg(%s: $v) } }" % (vt, d, an)
        else:
            txt = "query Q($v: %s%s) { arg(%s: $v) }" % (vt, d, an)
        val = {"Int": 1, "String": "s", "Inp": {"x": 1}}[base]
        if bits & 2:
            val = [val]
    ok_usage = allowed(vt, pt, dflt, an == "ni")
    if ok_usage:
        with NoTracing():
            ast = gqlfront.parse(txt)
        vworld.reset()
        old = env.FFI._parse_to_json_ast
        env.FFI._parse_to_json_ast = lambda q: ast
        try:
            ok, resp = safe(lambda: env.run(ENG.execute(txt, variables={"v": val}, initial_value=vworld.ROOT)))
        finally:
            env.FFI._parse_to_json_ast = old
        observe(txt, resp)
        return verdict(ok and not resp.get("errors"))          # C06 direction, checked here for the same generator
    return verdict(expect_refused(txt, {"v": val}))


# ---- two schemas in one process with the same Parent.field names but different kinds ------------------------------------
# (rule objects are process-wide; a verdict reached for one schema must not be reused for another)
from vf.env import build, DictCache  # noqa: E402
SDL_LEAF = "type Query { a: Int item: String thing: Int u(x: Int): Int }"
SDL_COMP = "type Item { id: Int } input In { v: Int } type Query { a: Item item: Item thing: [Item] u(x: In): Int }"
TWO_LOG = []


async def _two_res(parent, args, ctx, info):
    TWO_LOG.append(tuple(info.path.as_list()))
    return {"id": 1} if info.field_name in ("a", "item") else ([{"id": 1}] if info.field_name == "thing" else 1)


async def _leaf_res(parent, args, ctx, info):
    TWO_LOG.append(tuple(info.path.as_list()))
    return "s" if info.field_name == "item" else 1


ENG_LEAF = build(SDL_LEAF, "c07_leaf", custom_default_resolver=_leaf_res, query_cache_decorator=None)
ENG_COMP = build(SDL_COMP, "c07_comp", custom_default_resolver=_two_res, query_cache_decorator=None)
TWO_DOCS = ["{ a }", "{ item }", "{ thing }", "{ a { id } }", "{ item { id } }", "{ u(x: 1) }", "{ u(x: {v: 1}) }"]
# validity per schema: (leaf schema, composite schema)
TWO_VALID = [(True, False), (True, False), (True, False), (False, True), (False, True), (True, False), (False, True)]


@obligation(tier="quick", timeout=60, shards=[{"d1": a, "d2": b, "first_leaf": f} for a in range(len(TWO_DOCS)) for b in range(len(TWO_DOCS)) for f in (True, False)],
            samples=[{"k": 0}],
            selectors=["shard: document sent first to one engine, document then sent to the OTHER engine, which engine goes first (one fresh process per case: "
                       "process-wide validator state must not be polluted by other exploration paths)", "k: unused"],
            bounds="7 documents x 7 documents x 2 orders over two schemas whose Query fields have the same names but leaf vs composite / scalar vs input-object types",
            note="a document invalid for the engine's own schema is refused (nothing runs) even when another schema in the process, for which it is valid, validated it first; and vice versa")
def c07_two_schemas(k: int) -> bool:
    """
    post: _
    """
    sh = shard()
    d1, d2, first_leaf = sh["d1"], sh["d2"], sh["first_leaf"]
    order = [(ENG_LEAF, 0, d1), (ENG_COMP, 1, d2)] if first_leaf else [(ENG_COMP, 1, d1), (ENG_LEAF, 0, d2)]
    for eng, which, d in order:
        del TWO_LOG[:]
        ok, r = safe(lambda: env.run(eng.execute(TWO_DOCS[d])))
        observe(TWO_DOCS[d], which, r)
        if not ok:
            return verdict(False)
        if TWO_VALID[d][which]:
            if r.get("errors") or r.get("data") is None:
                return verdict(False)
        elif r.get("data") is not None or not r.get("errors") or TWO_LOG:
            return verdict(False)
    return verdict(True)


# ---- an invalid document is refused whatever was refused before it in the process (validator objects are process-wide) ------------------------
HIST_FIRST = ["{ ...F } fragment F on Query { a ...F }", "{ ...F } fragment F on Query { ...G } fragment G on Query { ...H } fragment H on Query { a ...F }",
              "{ nope }", "query Q($v: Int, $v: Int) { arg(i: $v) }", "subscription S { t1 t2 }"]
HIST_SECOND = ["{ arg(zz: 2) }", "{ a @skip(if: true) @skip(if: false) }", "{ a { x } }", "{ q { nope } }", "{ req }", "{ ...F } fragment F on Query { a } fragment G on Query { b }",
               "query Q($v: Int) { a }", "{ arg(i: $u) }", "{ node { n } }", "{ a } { b }", "{ arg(i: \"s\") }", "{ ...F } fragment F on Query { b ...F }", "mutation { set(v: 1) nope }"]


@obligation(tier="quick", timeout=60, shards=[{"first": f, "second": s_} for f in range(len(HIST_FIRST)) for s_ in range(len(HIST_SECOND))],
            quick_shards=[i for i, (f, s_) in enumerate((f, s_) for f in range(len(HIST_FIRST)) for s_ in range(len(HIST_SECOND))) if f in (0, 1) or s_ in (0, 4)],
            samples=[{"v": 1}, {"v": None}],
            symbolic=["v: Optional[int] — the variable value sent with both requests"],
            selectors=["shard: a first refused document (2 fragment cycles, unknown field, duplicate variable, two subscription roots) and a second rule-breaking "
                       "document of another rule (13) — one fresh process per pair"],
            bounds="5 x 13 ordered pairs",
            note="after a request was refused (a fragment cycle in particular: the rule that aborts validation), a different rule-breaking document is still refused and nothing of it runs")
def c07_history(v: Optional[int]) -> bool:
    """
    post: _
    """
    sh = shard()
    first = HIST_FIRST[sh["first"]]; second = HIST_SECOND[sh["second"]]
    if not expect_refused(first, {"v": v}):
        return verdict(False)
    return verdict(expect_refused(second, {"v": v}))
