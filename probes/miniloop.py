import asyncio, collections
from asyncio import events, futures, tasks

class _Handle:
    __slots__ = ("cb", "args", "ctx", "cancelled_")
    def __init__(self, cb, args, ctx):
        self.cb = cb; self.args = args; self.ctx = ctx; self.cancelled_ = False
    def cancel(self):
        self.cancelled_ = True
    def cancelled(self):
        return self.cancelled_

class MiniLoop(asyncio.AbstractEventLoop):
    def __init__(self, chooser=None):
        self._ready = collections.deque()
        self._chooser = chooser
        self._exc = []
        self.steps = 0
    def get_debug(self): return False
    def is_running(self): return True
    def is_closed(self): return False
    def time(self): return 0.0
    def call_soon(self, cb, *args, context=None):
        h = _Handle(cb, args, context)
        self._ready.append(h)
        return h
    def create_future(self):
        return futures.Future(loop=self)
    def create_task(self, coro, *, name=None, context=None):
        return tasks.Task(coro, loop=self, name=name, context=context)
    def call_exception_handler(self, context):
        self._exc.append(context)
    def run_until_complete(self, coro):
        prev = events._get_running_loop()
        events._set_running_loop(self)
        try:
            t = self.create_task(coro)
            while not t.done():
                if not self._ready:
                    raise RuntimeError("deadlock: no ready callbacks")
                if self._chooser is None or len(self._ready) == 1:
                    h = self._ready.popleft()
                else:
                    i = self._chooser(len(self._ready))
                    h = self._ready[i]; del self._ready[i]
                self.steps += 1
                if not h.cancelled_:
                    if h.ctx is not None:
                        h.ctx.run(h.cb, *h.args)
                    else:
                        h.cb(*h.args)
            return t.result()
        finally:
            events._set_running_loop(prev)

def run(coro, chooser=None):
    return MiniLoop(chooser).run_until_complete(coro)
