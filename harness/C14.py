"""C14 — subscriptions answer every source event once, in order; a field failure does not end the stream; invalid
requests yield one errors-only response without starting the source.  (DESIGN §4 C14)"""
from typing import Optional, List
from vf import env, miniloop
from vf.env import pick, pickb, verdict, observe, safe, build, DictCache
from vf.ob import obligation, shard
from tartiflette import Resolver, Subscription

META = {
    "bounds": "10 subscription documents (source without resolver on the default and on a custom_default_resolver engine, several operations selected by operation_name, non-null root field, alias, fragment, literal/variable/default arguments, nested selection with a non-null leaf) + 12 invalid requests (unknown field / directive, missing or ill-typed variable, ill-typed literal, several root fields directly and through sibling / nested fragments); event sequences of "
              "length 0..3 (0..2 in the quick tier) over unbounded ints / None (payloads that are well-formed, provoke a field error, or are null); gated source and gated consumer",
    "outside": "more than 3 events per stream; several concurrent subscriptions on one engine (C15 covers execute)",
    "explanation": "Each yielded response is compared with the response the payload must produce (C01/C02 semantics), position by position; source call counter and coerced source arguments checked.",
}
NAME = "c14"
SDL = """
type Leaf { n: Int! }
type Mid { n: Int leaf: Leaf }
type Query { a: Int }
type Subscription { tick(n: Int = 2): Int  ev(k: Int): Mid  strict(n: Int): Int!  sev: Mid!  plain(n: Int): Int }
"""
ST = {"events": [], "gate": False}
SRC_CALLS = []
RES_CALLS = []


@Subscription("Subscription.tick", schema_name=NAME)
async def _src_tick(parent, args, ctx, info):
    SRC_CALLS.append(("tick", args))
    for e in ST["events"]:
        if ST["gate"]:
            await miniloop.gate("src")
        yield e


@Subscription("Subscription.ev", schema_name=NAME)
async def _src_ev(parent, args, ctx, info):
    SRC_CALLS.append(("ev", args))
    for e in ST["events"]:
        if ST["gate"]:
            await miniloop.gate("src")
        yield None if e is None else {"n": e, "leaf": {"n": None if e == 0 else e}}


@Subscription("Subscription.strict", schema_name=NAME)
async def _src_strict(parent, args, ctx, info):
    SRC_CALLS.append(("strict", args))
    for e in ST["events"]:
        if ST["gate"]:
            await miniloop.gate("src")
        yield e


@Subscription("Subscription.plain", schema_name=NAME)        # no @Resolver: the default resolver picks the field out of each event
async def _src_plain(parent, args, ctx, info):
    SRC_CALLS.append(("plain", args))
    for e in ST["events"]:
        if ST["gate"]:
            await miniloop.gate("src")
        yield {"plain": e}


@Resolver("Subscription.strict", schema_name=NAME)
async def _rstrict(parent, args, ctx, info):
    RES_CALLS.append(("strict", parent, args))
    if parent is not None and parent < 0:
        raise ValueError("neg")
    return parent


@Resolver("Subscription.tick", schema_name=NAME)
async def _rtick(parent, args, ctx, info):
    RES_CALLS.append(("tick", parent, args))
    if parent is None:
        return None
    if parent < 0:
        raise ValueError("neg")
    return parent


@Resolver("Subscription.ev", schema_name=NAME)
async def _rev(parent, args, ctx, info):
    RES_CALLS.append(("ev", parent, args))
    return parent


ENG = build(SDL, NAME, query_cache_decorator=DictCache())


# a second engine: `custom_default_resolver` (public option) is what resolves a subscription root field that has a source but no @Resolver
@Subscription("Subscription.plain", schema_name="c14b")
async def _src_plain_b(parent, args, ctx, info):
    SRC_CALLS.append(("plain", args))
    for e in ST["events"]:
        if ST["gate"]:
            await miniloop.gate("src")
        yield {"x_plain": e}


async def _cdr(parent, args, ctx, info):
    return parent.get("x_" + info.field_name) if isinstance(parent, dict) else None


ENG_B = build("type Query { a: Int }\ntype Subscription { plain(n: Int): Int }", "c14b", query_cache_decorator=DictCache(), custom_default_resolver=_cdr)
DOCS = [
    ("subscription { tick }", "tick", "tick", {"n": 2}),
    ("subscription S($n: Int) { t: tick(n: $n) }", "tick", "t", None),
    ("subscription { tick(n: 5) }", "tick", "tick", {"n": 5}),
    ("subscription { ...F } fragment F on Subscription { ev(k: 1) { n leaf { n } } }", "ev", "ev", {"k": 1}),
    ("subscription S($n: Int = 9) { ... on Subscription { x: ev(k: $n) { leaf { n } } } }", "ev", "x", None),
    ("subscription { tick(n: null) }", "tick", "tick", {"n": None}),
    ("subscription { s: strict(n: 1) }", "strict", "s", {"n": 1}),          # non-null root field: a failing event nulls `data` of THAT response only
    ("subscription { p: plain(n: 1) }", "plain", "p", {"n": 1}),            # source only, default resolver
    ("query Q { a } subscription S { tick } subscription T { t: tick(n: 7) }", "tick", "tick", {"n": 2}),       # several operations: operation_name selects the subscription
    ("subscription { p: plain(n: 1) }", "plain", "p", {"n": 1}),            # the same on the engine with a custom default resolver (events keyed differently)
]
OPNAME = {8: "S"}
ENGSEL = {9: ENG_B}
BAD = [
    ("subscription { nope }", {}), ("subscription S($n: Int!) { tick(n: $n) }", {}), ("subscription S($n: Int) { tick(n: $n) }", {"n": "str"}), ("subscription { tick ev { n } }", {}),
    # more than one root field, the second one reached through fragments placed next to the first selection
    ("subscription { tick ...F } fragment F on Subscription { ev { n } }", {}), ("subscription { tick ... on Subscription { ev { n } } }", {}),
    ("subscription { ...A ...B } fragment A on Subscription { tick } fragment B on Subscription { ev { n } }", {}), ("subscription { ... on Subscription { tick } x: tick }", {}),
    ("subscription { ...A } fragment A on Subscription { ...B ev { n } } fragment B on Subscription { tick }", {}),
    ("subscription A { tick } subscription B { tick ev { n } }", {}), ("subscription { tick @nope }", {}), ("subscription { ev(k: \"s\") { n } }", {}),
]


async def consume(agen, gated):
    out = []
    async for x in agen:
        out.append(x)
        if gated:
            await miniloop.gate("consumer")
    return out


def warm():
    ST["events"] = []; ST["gate"] = False
    for _di, (q, _, _, _) in enumerate(DOCS):
        env.run(consume(ENGSEL.get(_di, ENG).subscribe(q, variables={}, operation_name="S" if " S " in q and "subscription T" in q else None), False))
    for q, v in BAD:
        env.run(consume(ENG.subscribe(q, variables=dict(v)), False))


warm()
I32 = 2 ** 31


def expected_tick(key, e):
    if e is None:
        return {"data": {key: None}}, 0
    if e < 0 or e >= I32:
        return {"data": {key: None}}, 1
    return {"data": {key: e}}, 0


def expected_ev(key, e, with_n):
    """Mid { n: Int leaf: Leaf } / Leaf { n: Int! }: a null or unserialisable Leaf.n nulls the nullable `leaf` only"""
    if e is None:
        return {"data": {key: None}}, 0
    in_range = -I32 <= e < I32
    leaf = {"n": e} if (e != 0 and in_range) else None
    nerr = 0 if leaf is not None else 1
    d = {"leaf": leaf}
    if with_n:
        d = {"n": e if in_range else None, "leaf": leaf}
        if not in_range:
            nerr += 1
    return {"data": {key: d}}, nerr


SH14 = [{"doc": d, "gated": g, "cgated": c, "maxlen": m} for m in (2, 3) for d in range(len(DOCS)) for g in (1, 0) for c in (1, 0)]


@obligation(tier="quick", timeout=300, shards=SH14, quick_shards=[i for i, s in enumerate(SH14) if s["maxlen"] == 2 and ((s["gated"] and s["cgated"]) or s["doc"] == 0)],
            samples=[{"events": [1, None, -1], "arg": 3, "argmode": 1, "gated": True, "cgated": False, "withiv": True}, {"events": [], "arg": None, "argmode": 0, "gated": False, "cgated": True, "withiv": False}],
            symbolic=["events: List[Optional[int]] (length 0..3, unbounded ints)", "arg: Optional[int] — variable value of the source argument"],
            selectors=["withiv: subscribe(initial_value=...) given or not", "argmode: variable absent / provided", "gated: the source suspends before every event", "cgated: the consumer suspends between responses (interleaved consumption)", "shard: document"],
            bounds="events <= 3",
            note="one response per event, in order, each equal to executing the selection on that payload; erroring events do not end the stream; the source is started once with the coerced arguments")
def c14_stream(events: List[Optional[int]], arg: Optional[int], argmode: int, gated: bool, cgated: bool, withiv: bool = False) -> bool:
    """
    pre: len(events) <= 3
    post: _
    """
    q, field, key, fixed_args = DOCS[shard()["doc"]]
    argmode = pick(argmode, 2) if fixed_args is None else 0
    variables = {}
    if fixed_args is None and argmode == 1:
        if arg is not None and not (-I32 <= arg < I32):
            return True          # refused at variable coercion: c14_invalid's subject
        variables["n"] = arg
    sh = shard()
    if len(events) > sh["maxlen"]:
        return True
    ST["events"] = events; ST["gate"] = bool(sh["gated"])
    del SRC_CALLS[:]; del RES_CALLS[:]
    # `initial_value` is the parent handed to the SOURCE; every response is computed against its own event, a null event included
    iv = {"tick": 77, "t": 77, "plain": 77, "p": 77, "n": 77, "leaf": {"n": 77}, "strict": 77, "s": 77} if pickb(withiv) else None
    ok, got = safe(lambda: env.run(consume(ENGSEL.get(sh["doc"], ENG).subscribe(q, variables=variables, operation_name=OPNAME.get(sh["doc"]), initial_value=iv), bool(sh["cgated"]))))
    observe(got, list(SRC_CALLS))
    if not ok:
        return verdict(False)
    if len(got) != len(events):
        return verdict(False)
    for e, r in zip(events, got):
        if field == "strict":
            bad = e is None or e < 0 or e >= I32
            exp, nerr = ({"data": None}, 1) if bad else ({"data": {key: e}}, 0)
        elif field == "plain":
            oob = e is not None and not (-I32 <= e < I32)
            exp, nerr = ({"data": {key: None if oob else e}}, 1 if oob else 0)
        else:
            exp, nerr = expected_tick(key, e) if field == "tick" else expected_ev(key, e, "n leaf" in q)
        if r.get("data") != exp["data"]:
            return verdict(False)
        errs = r.get("errors")
        if (nerr == 0) != (errs is None):
            return verdict(False)
        if errs is not None and (len(errs) < 1 or (errs[0]["path"] or [key])[0] != key):
            return verdict(False)
    if len(SRC_CALLS) != 1 or SRC_CALLS[0][0] != field:
        return verdict(False)
    sargs = SRC_CALLS[0][1]
    if fixed_args is not None:
        exp_args = fixed_args
    else:
        argname = "n" if field == "tick" else "k"
        if argmode == 1:
            exp_args = {argname: arg}
        else:
            exp_args = {"n": 2} if field == "tick" else {"k": 9}
    if set(sargs.keys()) != set(exp_args.keys()):
        return verdict(False)
    for kk in exp_args:
        if (sargs[kk] is None) != (exp_args[kk] is None) or (exp_args[kk] is not None and sargs[kk] != exp_args[kk]):
            return verdict(False)
    # the field resolver ran exactly once per event, with the event as parent
    if field != "plain" and len(RES_CALLS) != len(events):
        return verdict(False)
    return verdict(True)


@obligation(tier="quick", timeout=120, samples=[{"k": 0, "events": [1]}, {"k": 2, "events": []}],
            symbolic=["events: List[Optional[int]] the source would produce"], selectors=["k: invalid request (unknown field / directive, missing or ill-typed variable, ill-typed literal, several root fields directly or through sibling / nested fragments, in another operation)"],
            bounds="12 invalid requests",
            note="a request failing validation or variable coercion yields exactly one errors-only response and the source is never started")
def c14_invalid(k: int, events: List[Optional[int]]) -> bool:
    """
    pre: len(events) <= 2
    post: _
    """
    k = pick(k, len(BAD))
    q, v = BAD[k]
    ST["events"] = events; ST["gate"] = False
    del SRC_CALLS[:]; del RES_CALLS[:]
    ok, got = safe(lambda: env.run(consume(ENG.subscribe(q, variables=dict(v)), False)))
    observe(got)
    if not ok or len(got) != 1:
        return verdict(False)
    r = got[0]
    return verdict(r.get("data") is None and bool(r.get("errors")) and not SRC_CALLS and not RES_CALLS)
